# src/client/amended.rs : the request plus its amendments (C02 C13 C14 C16 C17)

MODULE('client::amended', 'src/client/amended.rs', uses='''
use crate::*;
use std::mem;
use crate::http::{HeaderMap, HeaderName, HeaderValue, Method, Request, Uri, Version, Hdr, by_name, first_value, lower};
use crate::url::Url;
use crate::body::{BodyWriter, SenderMode};
use crate::ext::{MethodExt, method_needs_body, spec_verify_version, res_agree};
use crate::util::{compare_lowercase_ascii, spec_compare_lowercase_ascii, ArrayVec};
use crate::error::Error;
use crate::client::MAX_EXTRA_HEADERS;
use vstd::std_specs::iter::IteratorSpec;
''')

RAW('''
pub open spec fn hdr_of(p: (HeaderName, HeaderValue)) -> Hdr { Hdr { name: p.0.view(), value: p.1.view() } }
pub open spec fn is_text(v: Seq<u8>) -> bool { forall|i: int| 0 <= i < v.len() ==> (32 <= #[trigger] v[i] < 127 || v[i] == 9) }
pub open spec fn lit(s: &str) -> Seq<u8> { str_bytes(s) }

/// N9: the iterator returned by `AmendedRequest::headers()` (`map.chain.filter`, impl Iterator)
#[verifier::external_body]
pub struct HIter<'a> { p: core::marker::PhantomData<&'a u8> }
impl<'a> Iterator for HIter<'a> {
    type Item = (&'a HeaderName, &'a HeaderValue);
    #[verifier::external_body]
    fn next(&mut self) -> Option<Self::Item> { unimplemented!() }
}
impl<'a> vstd::std_specs::iter::IteratorSpecImpl for HIter<'a> {
    uninterp spec fn obeys_prophetic_iter_laws(&self) -> bool;
    uninterp spec fn remaining(&self) -> Seq<(&'a HeaderName, &'a HeaderValue)>;
    uninterp spec fn will_return_none(&self) -> bool;
    uninterp spec fn decrease(&self) -> Option<nat>;
    uninterp spec fn peek(&self, i: int) -> Option<(&'a HeaderName, &'a HeaderValue)>;
}
impl<'a> HIter<'a> {
    /// N9: `Iterator::count` (std, no vstd spec): ASSUMED to return the number of items the iterator still yields
    #[verifier::external_body]
    pub fn count(self) -> (n: usize)
        requires self.obeys_prophetic_iter_laws()
        ensures n == self.remaining().len()
    { unimplemented!() }
}
/// the items an effective-header iterator still has to yield, as model fields
pub open spec fn items_are<'a>(items: Seq<(&'a HeaderName, &'a HeaderValue)>, hs: Seq<Hdr>) -> bool {
    items.len() == hs.len() && forall|i: int| 0 <= i < hs.len() ==> (#[trigger] items[i]).0.view() == hs[i].name && items[i].1.view() == hs[i].value
}

/// C17: does any effective Transfer-Encoding field (textual) equal "chunked" ignoring ASCII case
pub open spec fn te_chunked(eff: Seq<Hdr>) -> bool {
    exists|i: int| 0 <= i < eff.len() && (#[trigger] eff[i]).name == lit("transfer-encoding") && is_text(eff[i].value)
        && spec_compare_lowercase_ascii(eff[i].value, lit("chunked"))
}
/// C17, written from the statement: the outcome of request analysis as a function of the request
pub open spec fn spec_analyze(m: Method, v: Version, eff: Seq<Hdr>, wanted: BodyWriter, skip: bool) -> Result<RequestInfo, Error> {
    let host = first_value(eff, lit("host"));
    let cl = first_value(eff, lit("content-length"));
    if spec_verify_version(m, v) is Err { Err(spec_verify_version(m, v)->Err_0) }
    else if by_name(eff, lit("host")).len() > 1 { Err(Error::TooManyHostHeaders) }
    else if by_name(eff, lit("content-length")).len() > 1 { Err(Error::TooManyContentLengthHeaders) }
    else if host is Some && !is_text(host->Some_0) { Err(Error::BadHostHeader) }
    else if cl is Some && (!is_text(cl->Some_0) || parse_dec_u64(cl->Some_0) is None) { Err(Error::BadContentLengthHeader) }
    else {
        let mode = if te_chunked(eff) { BodyWriter { mode: SenderMode::Chunked, ended: false } }
                   else if cl is Some { BodyWriter { mode: SenderMode::Sized(parse_dec_u64(cl->Some_0)->Some_0), ended: false } }
                   else { wanted };
        let has_body = !(mode.mode is None);
        if !skip && !method_needs_body(m) && has_body { Err(Error::MethodForbidsBody(m)) }
        else if !skip && method_needs_body(m) && !has_body { Err(Error::MethodRequiresBody(m)) }
        else { Ok(RequestInfo { body_mode: mode, req_host_header: host is Some, req_body_header: te_chunked(eff) || cl is Some }) }
    }
}

/// generic header-name / value conversions of `set_header` / `unset_header` (TryFrom<K>): None = rejected
pub uninterp spec fn key_bytes<K>(k: K) -> Option<Seq<u8>>;
pub uninterp spec fn val_bytes<V>(v: V) -> Option<Seq<u8>>;
#[verifier::external_body]
pub broadcast proof fn axiom_key_bytes_name(n: HeaderName)
    ensures #[trigger] key_bytes::<HeaderName>(n) == Some(n.view())
{}
#[verifier::external_body]
pub broadcast proof fn axiom_val_bytes_value(v: HeaderValue)
    ensures #[trigger] val_bytes::<HeaderValue>(v) == Some(v.view())
{}
#[verifier::external_body]
pub broadcast proof fn axiom_key_bytes_str(s: &'static str)
    ensures crate::http::valid_name(lower(str_bytes(s))) ==> #[trigger] key_bytes::<&'static str>(s) == Some(lower(str_bytes(s)))
{}
pub broadcast group axiom_key_val_bytes { axiom_key_bytes_name, axiom_val_bytes_value, axiom_key_bytes_str }
''')

ITEM('struct AmendedRequest')
ITEM('struct RequestInfo')

IMPL('impl<Body> AmendedRequest<Body>', raw='''
    /// headers of the original request, in iteration order
    pub open spec fn orig(&self) -> Seq<Hdr> { self.request.spec_headers().entries() }
    /// headers added by the caller / by request analysis, in the order added
    pub open spec fn added(&self) -> Seq<Hdr> { self.headers.view().map_values(|p: (HeaderName, HeaderValue)| hdr_of(p)) }
    /// names of inherited headers suppressed after a redirect
    pub open spec fn unset_names(&self) -> Seq<Seq<u8>> { self.unset.view().map_values(|n: HeaderName| n.view()) }
    pub open spec fn kept(&self) -> Seq<Hdr> { self.orig().filter(|h: Hdr| !self.unset_names().contains(h.name)) }
    /// C02/C16: the effective headers = added ones first (order added), then the original ones that are not suppressed
    pub open spec fn eff(&self) -> Seq<Hdr> { self.added() + self.kept() }
    pub open spec fn eff_uri(&self) -> Uri { match self.uri { Some(u) => u, None => self.request.spec_uri() } }
    /// the original request is still held (it is taken away by `take_request`)
    pub open spec fn wf(&self) -> bool { self.request.spec_body() is Some }
    /// everything but the added-header list is unchanged
    pub open spec fn same_but_added(&self, post: &Self) -> bool {
        post.request == self.request && post.uri == self.uri && post.unset.view() == self.unset.view()
    }

    // N9 stubs for the iterator pipelines used by `analyze` (headers_get_all(..).count(), headers_get(..), filter_map.any)
    #[verifier::external_body]
    pub fn count_named(&self, key: &'static str) -> (r: usize)
        ensures r == by_name(self.eff(), lit(key)).len()
    { unimplemented!() }
    #[verifier::external_body]
    pub fn first_named(&self, key: &'static str) -> (r: Option<&HeaderValue>)
        ensures match first_value(self.eff(), lit(key)) { Some(v) => r is Some && r->Some_0.view() == v, None => r is None }
    { unimplemented!() }
    #[verifier::external_body]
    pub fn te_chunked_declared(&self) -> (r: bool)
        ensures r == te_chunked(self.eff())
    { unimplemented!() }
''')

FN('new', props=['C09', 'C13', 'C16'], ret='r', trusted=True,
   ensures=[('assumed.AmendedRequest.new', 'r.request.same_head(&request) && r.request.spec_body() == Some(request.spec_body()) && r.uri is None && r.headers.view().len() == 0 && r.unset.view().len() == 0')])

FN('take_request', props=['C13', 'C14'], ret='r',
   requires=[('aux.take_request.wf', 'old(self).wf()')],
   ensures=[('C13.rebuilt_from_original', 'r.same_head(&old(self).request) && r.spec_body() == old(self).request.spec_body()->Some_0 && final(self).uri == old(self).uri')])

FN('set_uri', props=['C14'],
   ensures=[('C14.override_installed', 'final(self).uri == Some(uri) && final(self).request == old(self).request && final(self).headers.view() == old(self).headers.view() && final(self).unset.view() == old(self).unset.view()')])
FN('uri', props=['C14', 'C02', 'C13'], ret='r',
   ensures=[('C02/C14.effective_uri', '*r == self.eff_uri()')])
FN('prelude', props=['C02', 'C14'], ret='r',
   ensures=[('C02/C14.request_line_parts', '''*r.0 == self.request.spec_method() && r.2 == self.request.spec_version()
            && str_bytes(r.1) == (match self.eff_uri().spec_path_and_query() { Some(p) => p, None => lit("/") })''')],
   rewrites=[('N5', '.map(|p| p.as_str())', ".map(|p: &crate::http::uri::PathAndQuery| -> (s: &str) ensures str_bytes(s) == p.view() { p.as_str() })")])

SET_HEADER_SIG = '''pub fn set_header<K, V>(&mut self, name: K, value: V) -> Result<(), Error>
    where
        HeaderName: TryFrom<K>,
        <HeaderName as TryFrom<K>>::Error: Into<http::Error>,
        HeaderValue: TryFrom<V>,
        <HeaderValue as TryFrom<V>>::Error: Into<http::Error>,'''
RAW('''
    // N9: the generic conversion expression `<HeaderName as TryFrom<K>>::try_from(k).map_err(Into::into).map_err(|e| Error::BadHeader(e.to_string()))`
    // (trait-path function values, Display of http::Error) as a stub with an ASSUMED contract over the uninterpreted key_bytes / val_bytes
    #[verifier::external_body]
    pub fn header_name_from<K>(k: K) -> (r: Result<HeaderName, Error>)
        where HeaderName: TryFrom<K>, <HeaderName as TryFrom<K>>::Error: Into<crate::http::Error>
        ensures match key_bytes::<K>(k) { Some(n) => r is Ok && r->Ok_0.view() == n, None => r is Err && r->Err_0 is BadHeader }
    { unimplemented!() }
    #[verifier::external_body]
    pub fn header_value_from<V>(v: V) -> (r: Result<HeaderValue, Error>)
        where HeaderValue: TryFrom<V>, <HeaderValue as TryFrom<V>>::Error: Into<crate::http::Error>
        ensures match val_bytes::<V>(v) { Some(n) => r is Ok && r->Ok_0.view() == n, None => r is Err && r->Err_0 is BadHeader }
    { unimplemented!() }
''')
FN('set_header', props=['C16', 'C02'], ret='r',
   requires=[('C12.added_header_capacity', 'old(self).headers.view().len() < MAX_EXTRA_HEADERS')],
   ensures=[('C16.set_header_appends', '''old(self).same_but_added(final(self)) && match (key_bytes::<K>(name), val_bytes::<V>(value)) {
            (Some(n), Some(v)) => r is Ok && final(self).added() == old(self).added().push(Hdr { name: n, value: v }) && final(self).headers.view().len() == old(self).headers.view().len() + 1,
            _ => r is Err && r->Err_0 is BadHeader && final(self).headers.view() == old(self).headers.view() }''')],
   rewrites=[('N8', '<HeaderName as TryFrom<K>>::Error: Into<http::Error>,', '<HeaderName as TryFrom<K>>::Error: Into<crate::http::Error>,'),
             ('N8', '<HeaderValue as TryFrom<V>>::Error: Into<http::Error>,', '<HeaderValue as TryFrom<V>>::Error: Into<crate::http::Error>,'),
             ('N9', '''<HeaderName as TryFrom<K>>::try_from(name)
            .map_err(Into::into)
            .map_err(|e| Error::BadHeader(e.to_string()))?''', 'Self::header_name_from::<K>(name)?'),
             ('N9', '''<HeaderValue as TryFrom<V>>::try_from(value)
            .map_err(Into::into)
            .map_err(|e| Error::BadHeader(e.to_string()))?''', 'Self::header_value_from::<V>(value)?')],
   after=[('self.headers.push((name, value));', '''proof {
            assert(final(self).added() =~= old(self).added().push(hdr_of((name, value))));
        }''')] if False else [],
   )
FN('unset_header', props=['C13', 'C16'], ret='r',
   requires=[('C12.unset_capacity', 'old(self).unset.view().len() < 4')],
   ensures=[('C13/C16.unset_header_appends', '''final(self).request == old(self).request && final(self).uri == old(self).uri && final(self).headers.view() == old(self).headers.view() && match key_bytes::<K>(name) {
            Some(n) => r is Ok && final(self).unset_names() == old(self).unset_names().push(n) && final(self).unset.view().len() == old(self).unset.view().len() + 1,
            None => r is Err && final(self).unset.view() == old(self).unset.view() }''')],
   rewrites=[('N8', '<HeaderName as TryFrom<K>>::Error: Into<http::Error>,', '<HeaderName as TryFrom<K>>::Error: Into<crate::http::Error>,'),
             ('N9', '''<HeaderName as TryFrom<K>>::try_from(name)
            .map_err(Into::into)
            .map_err(|e| Error::BadHeader(e.to_string()))?''', 'Self::header_name_from::<K>(name)?')])

FN('original_request_headers', props=['C09'], ret='r', ensures=[('aux.original_request_headers', '*r == self.request.spec_headers()')])

FN('headers', props=['C02', 'C16', 'C13'], ret='it', trusted=True,
   ensures=[('assumed.headers_yields_effective', 'it.obeys_prophetic_iter_laws() && it.decrease() is Some && items_are(it.remaining(), self.eff())')],
   rewrites=[('N9', 'impl Iterator<Item = (&HeaderName, &HeaderValue)>', "HIter<'_>")])
FN('headers_len', props=['C02', 'C16'], ret='n',
   ensures=[('C02/C16.headers_len_counts_the_effective_headers', 'n == self.eff().len()')])

FN('method', props=['C15', 'C17'], ret='r', ensures=[('aux.AmendedRequest.method', '*r == self.request.spec_method()')])
FN('version', props=['C17'], ret='r', ensures=[('aux.AmendedRequest.version', 'r == self.request.spec_version()')])

FN('new_uri_from_location', props=['C14', 'C12'], ret='r',
   ensures=[('C14.resolve_against_current', '''match crate::url::spec_url_parse(self.eff_uri().spec_text()) {
            None => r is Err && r->Err_0 is BadLocationHeader,
            Some(base) => match crate::url::rfc3986_resolve(base, str_bytes(location)) {
                None => r is Err && r->Err_0 is BadLocationHeader,
                Some(t) => match parse_any::<Uri>(t) { Some(u) => r == Ok::<Uri, Error>(u), None => r is Err && r->Err_0 is BadLocationHeader },
            },
        }''')],
   rewrites=[
       ('N5', '.map_err(|_| Error::BadLocationHeader(location.to_string()))?', '.map_err(|_e: crate::url::ParseError| -> (e2: Error) ensures e2 is BadLocationHeader { bad_location(location) })?', 2),
       ('N5', '.map_err(|_| Error::BadLocationHeader(url.to_string()))?', '.map_err(|_e: crate::http::uri::InvalidUri| -> (e2: Error) ensures e2 is BadLocationHeader { bad_location(location) })?'),
   ])

FN('analyze', props=['C17', 'C02'], ret='r',
   ensures=[('C02/C17.classes_exact', 'res_agree(r, spec_analyze(self.request.spec_method(), self.request.spec_version(), self.eff(), wanted_mode, skip_method_body_check))')],
   head='broadcast use axiom_parse_u64;',
   rewrites=[
       ('N9', 'self.headers_get_all("host").count()', 'self.count_named("host")'),
       ('N9', 'self.headers_get_all("content-length").count()', 'self.count_named("content-length")'),
       ('N9', 'self.headers_get("host")', 'self.first_named("host")'),
       ('N9', 'self.headers_get("content-length")', 'self.first_named("content-length")'),
       ('N9', '''self
            .headers_get_all("transfer-encoding")
            .filter_map(|v| v.to_str().ok())
            .any(|v| compare_lowercase_ascii(v, "chunked"))''', 'self.te_chunked_declared()'),
       ('N5', 'h.to_str().map_err(|_| Error::BadHostHeader)?', 'h.to_str().map_err(|_e: crate::http::ToStrError| -> (e2: Error) ensures e2 == Error::BadHostHeader { Error::BadHostHeader })?'),
       ('N5', '.and_then(|s| s.parse::<u64>().ok())', '.and_then(|s: &str| -> (o: Option<u64>) ensures o == parse_any::<u64>(str_bytes(s)) { s.parse::<u64>().ok() })'),
   ])
END()

RAW('''
// N9: `Error::BadLocationHeader(x.to_string())`
#[verifier::external_body]
pub fn bad_location(s: &str) -> (r: Error) ensures r is BadLocationHeader { unimplemented!() }
''')
