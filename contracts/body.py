# contracts for src/body.rs  (module `body` of the woven crate)

MODULE('body', 'src/body.rs', uses='''
use crate::*;
use crate::io;
use crate::util::{compare_lowercase_ascii, log_data, Writer};
''')

# The spec-level arithmetic of C18/C19 (spec_max_input, cc, the lemmas about them) is written and proved for the tuning
# constants the source has today.  If they are changed the properties may well still hold, but these lemmas no longer
# speak about the code: that is "cannot decide here" (inconclusive, the bounded twins still run), never an alarm.
import re as _re
_src = open(REPO + '/src/body.rs', encoding='utf-8').read()
for _name, _val in (('DEFAULT_CHUNK_SIZE', '10 * 1024'), ('DEFAULT_CHUNK_OVERHEAD', '4 + 4'), ('DEFAULT_CHUNK_AND_OVERHEAD', 'DEFAULT_CHUNK_SIZE + DEFAULT_CHUNK_OVERHEAD')):
    if not _re.search(r'const\s+%s\s*:\s*usize\s*=\s*%s\s*;' % (_name, _re.escape(_val).replace('\\ ', '\\s*')), _src):
        raise LostAnchor('body: tuning constant %s is no longer `%s`; the spec-level chunk arithmetic (10240 / 8 / 10248) is proved for that value only' % (_name, _val))

# =============================================================================
# spec vocabulary for the request-body writer (C03, C04, C18, C19)
# =============================================================================
RAW('''
/// number of hex digits of n (what `{:0x?}` prints)
pub open spec fn spec_hex_len(n: nat) -> nat
    decreases n
{
    if n < 16 { 1 } else { 1 + spec_hex_len(n / 16) }
}
/// one chunk on the wire: <len in hex> CRLF <data> CRLF
pub open spec fn chunk_bytes(d: Seq<u8>) -> Seq<u8> { hex_digits(d.len()) + crlf() + d + crlf() }
pub open spec fn chunk_len(t: nat) -> nat { spec_hex_len(t) + 4 + t }
/// the terminating zero-length chunk
pub open spec fn term_bytes() -> Seq<u8> { seq![48u8, 13u8, 10u8, 13u8, 10u8] }
// N14: the byte-string literal b"0\\r\\n\\r\\n" (Verus gives literals no view); assumed to denote its bytes
#[verifier::external_body]
pub fn lit_term() -> (r: &'static [u8])
    ensures r@ == term_bytes()
{ b"0\\r\\n\\r\\n" }

pub open spec fn total(sizes: Seq<nat>) -> nat
    decreases sizes.len()
{
    if sizes.len() == 0 { 0 } else { total(sizes.drop_last()) + sizes.last() }
}
pub open spec fn all_pos(sizes: Seq<nat>) -> bool { forall|i: int| 0 <= i < sizes.len() ==> sizes[i] > 0 }
/// the chunked coding of inp[0 .. total(sizes)] cut into chunks of the given sizes
pub open spec fn chunked_with(inp: Seq<u8>, sizes: Seq<nat>) -> Seq<u8>
    decreases sizes.len()
{
    if sizes.len() == 0 { Seq::<u8>::empty() } else {
        let p = sizes.drop_last();
        chunked_with(inp, p) + chunk_bytes(inp.subrange(total(p) as int, (total(p) + sizes.last()) as int))
    }
}
/// C03: `bytes` is a sequence of complete, non-empty chunks whose data is exactly inp[0..used]
pub open spec fn is_chunking(bytes: Seq<u8>, inp: Seq<u8>, used: nat) -> bool {
    exists|sizes: Seq<nat>| all_pos(sizes) && total(sizes) == used && used <= inp.len() && bytes == #[trigger] chunked_with(inp, sizes)
}

/// largest t with chunk_len(t) <= a  (0 if no chunk fits); closed form, tied to its meaning by lemma_max_fit
pub open spec fn spec_max_fit(a: nat) -> nat {
    let room = if a >= 4 { (a - 4) as nat } else { 0 };
    let fit = if room >= spec_hex_len(room) { (room - spec_hex_len(room)) as nat } else { 0 };
    if fit + 1 + spec_hex_len(fit + 1) <= room { fit + 1 } else { fit }
}

/// data consumed by one chunked `write` of L input bytes into A bytes of output
/// (greedy: largest chunk that fits, at most 10240, until input or space runs out)
pub open spec fn cc(l: nat, a: nat) -> nat
    decreases l
{
    let t = min3(l as int, 10240, spec_max_fit(a) as int) as nat;
    if t == 0 { 0 } else if l == t { t } else if chunk_len(t) > a { 0 } else { t + cc((l - t) as nat, (a - chunk_len(t)) as nat) }
}

/// closed form of `calculate_max_input`
pub open spec fn spec_max_input(n: nat) -> nat {
    (n / 10248) * 10240 + (if n % 10248 <= 8 { 0 } else { (n % 10248 - 8) as nat })
}
''')

PROOF('lemma_hex', ['C03', 'C18', 'C19'], '''
pub proof fn lemma_hex_len(n: nat)
    ensures hex_digits(n).len() == spec_hex_len(n), spec_hex_len(n) >= 1
    decreases n
{
    if n >= 16 { lemma_hex_len(n / 16); }
}
pub proof fn lemma_hex_len_mono(a: nat, b: nat)
    requires a <= b
    ensures spec_hex_len(a) <= spec_hex_len(b)
    decreases b
{
    if b >= 16 {
        if a >= 16 { lemma_hex_len_mono(a / 16, b / 16); } else { lemma_hex_len(b / 16); }
    }
}
pub proof fn lemma_hex_len_bound(n: nat)
    ensures spec_hex_len(n) <= n + 1, n < 16 ==> spec_hex_len(n) == 1,
            16 <= n < 256 ==> spec_hex_len(n) == 2, 256 <= n < 4096 ==> spec_hex_len(n) == 3, 4096 <= n < 65536 ==> spec_hex_len(n) == 4,
    decreases n
{
    if n >= 16 { lemma_hex_len_bound(n / 16); }
}
pub proof fn lemma_hex_len_usize(n: nat)
    requires n <= usize::MAX
    ensures spec_hex_len(n) <= 16
{
    reveal_with_fuel(spec_hex_len, 18);
    assert(spec_hex_len(n) <= 16) by {
        let a0 = n; let a1 = a0 / 16; let a2 = a1 / 16; let a3 = a2 / 16; let a4 = a3 / 16; let a5 = a4 / 16; let a6 = a5 / 16; let a7 = a6 / 16;
        let a8 = a7 / 16; let a9 = a8 / 16; let a10 = a9 / 16; let a11 = a10 / 16; let a12 = a11 / 16; let a13 = a12 / 16; let a14 = a13 / 16; let a15 = a14 / 16;
        assert(a15 < 16);
    }
}
pub proof fn lemma_chunk_len_mono(a: nat, b: nat)
    requires a <= b
    ensures chunk_len(a) <= chunk_len(b), a < b ==> chunk_len(a) < chunk_len(b)
{
    lemma_hex_len_mono(a, b);
}
pub proof fn lemma_chunk_bytes_len(d: Seq<u8>)
    ensures chunk_bytes(d).len() == chunk_len(d.len())
{
    lemma_hex_len(d.len());
}
''')

PROOF('lemma_max_fit', ['C03', 'C18', 'C19'], '''
/// meaning of spec_max_fit: it fits, and nothing larger fits
pub proof fn lemma_max_fit(a: nat)
    ensures
        spec_max_fit(a) > 0 ==> chunk_len(spec_max_fit(a)) <= a,
        forall|t: nat| t > spec_max_fit(a) ==> chunk_len(t) > a,
        a >= 6 ==> spec_max_fit(a) >= 1,
        a < 6 ==> spec_max_fit(a) == 0,
        spec_max_fit(a) + 5 <= a || spec_max_fit(a) == 0,
{
    let room = if a >= 4 { (a - 4) as nat } else { 0 };
    let h = spec_hex_len(room);
    lemma_hex_len_bound(room);
    lemma_hex_len(room);
    let fit = if room >= h { (room - h) as nat } else { 0 };
    let m = spec_max_fit(a);
    lemma_hex_len_mono(fit, room);
    lemma_hex_len(fit);
    lemma_hex_len(fit + 1);
    lemma_hex_len_bound(1);
    if room >= 16 {
        lemma_hex_len_bound(room / 16);
        assert(h == 1 + spec_hex_len(room / 16));
    }
    assert forall|t: nat| t > m implies chunk_len(t) > a by {
        lemma_hex_len(t);
        if a < 4 {
        } else if room < h {
        } else if m == fit {
            lemma_hex_len_mono(fit + 1, t);
        } else {
            lemma_hex_len_mono(fit + 2, t);
            lemma_hex_len(fit + 2);
            if room >= 16 {
                assert(fit + 2 >= room / 16);
                lemma_hex_len_mono(room / 16, fit + 2);
            }
        }
    }
}
''')

PROOF('lemma_cc', ['C18', 'C19'], '''
/// C19: offering more input never reduces progress
pub proof fn lemma_cc_monotone(l1: nat, l2: nat, a: nat)
    requires l1 <= l2
    ensures cc(l1, a) <= cc(l2, a)
    decreases l1
{
    let t1 = min3(l1 as int, 10240, spec_max_fit(a) as int) as nat;
    let t2 = min3(l2 as int, 10240, spec_max_fit(a) as int) as nat;
    lemma_max_fit(a);
    if t1 == 0 {
    } else if l1 == t1 {
        lemma_chunk_len_mono(t2, spec_max_fit(a));
    } else {
        assert(t1 == t2);
        lemma_chunk_len_mono(t1, spec_max_fit(a));
        lemma_cc_monotone((l1 - t1) as nat, (l2 - t1) as nat, (a - chunk_len(t1)) as nat);
    }
}
pub proof fn lemma_cc_le(l: nat, a: nat)
    ensures cc(l, a) <= l
    decreases l
{
    let t = min3(l as int, 10240, spec_max_fit(a) as int) as nat;
    if t != 0 && l != t && chunk_len(t) <= a { lemma_cc_le((l - t) as nat, (a - chunk_len(t)) as nat); }
}
/// C18: every input up to the advertised maximum for n is consumed completely by one write into n bytes
pub proof fn lemma_max_input_fits(l: nat, n: nat)
    requires l <= spec_max_input(n)
    ensures cc(l, n) == l
    decreases l
{
    lemma_max_fit(n);
    let f = spec_max_fit(n);
    let t = min3(l as int, 10240, f as int) as nat;
    if l == 0 {
    } else if n < 10248 {
        // single tail chunk: l <= n - 8, needs at most 4 hex digits
        assert(n / 10248 == 0);
        assert(l + 8 <= n);
        lemma_hex_len_bound(l);
        assert(chunk_len(l) <= n);
        if f < l { assert(chunk_len(l) > n); }
        assert(t == l);
    } else {
        lemma_hex_len_bound(10240);
        assert(chunk_len(10240) == 10248);
        if f < 10240 { assert(chunk_len(10240) > n); }
        if l <= 10240 {
            assert(t == l);
        } else {
            assert(t == 10240);
            assert((n - 10248) / 10248 == n / 10248 - 1) by {
                assert(n == 10248 * (n / 10248) + n % 10248);
            }
            assert((n - 10248) % 10248 == n % 10248);
            assert(spec_max_input((n - 10248) as nat) == spec_max_input(n) - 10240);
            lemma_max_input_fits((l - 10240) as nat, (n - 10248) as nat);
        }
    }
}
/// C18: the advertised maximum never exceeds n and never decreases as n grows
pub proof fn lemma_max_input_le_and_monotone(a: nat, b: nat)
    requires a <= b
    ensures spec_max_input(a) <= a, spec_max_input(a) <= spec_max_input(b)
{
    assert(a == 10248 * (a / 10248) + a % 10248);
    assert(b == 10248 * (b / 10248) + b % 10248);
    if a / 10248 < b / 10248 {
        assert(a / 10248 + 1 <= b / 10248);
    } else {
        assert(a / 10248 == b / 10248) by {
            if a / 10248 > b / 10248 { assert(a / 10248 >= b / 10248 + 1); }
        }
    }
}
/// C19: progress whenever the smallest chunk fits, and never less than the advertised maximum would give
pub proof fn lemma_cc_progress(l: nat, a: nat)
    ensures
        l > 0 && a >= 6 ==> cc(l, a) >= 1,
        cc(l, a) >= min2(l as int, spec_max_input(a) as int),
{
    lemma_max_fit(a);
    let t = min3(l as int, 10240, spec_max_fit(a) as int) as nat;
    if l > 0 && a >= 6 {
        lemma_chunk_len_mono(t, spec_max_fit(a));
        assert(t >= 1);
        if l != t { lemma_cc_le(0, 0); }
    }
    let m = min2(l as int, spec_max_input(a) as int) as nat;
    lemma_max_input_fits(m, a);
    lemma_cc_monotone(m, l, a);
}
''')

# =============================================================================
# BodyWriter
# =============================================================================
ITEM('struct BodyWriter', derive_drop=['Default'])
ITEM('enum SenderMode')
IMPL('impl Default for SenderMode')
FN('default', props=['C09'], ret='r', ensures=[('aux.SenderMode.default', 'r is None')])
END()
RAW('''
// N10: #[derive(Default)] of BodyWriter written out (field-wise default), Verus has no spec for the derive
impl Default for BodyWriter {
    fn default() -> (r: Self)
        ensures r.mode is None, !r.ended
    { BodyWriter { mode: SenderMode::default(), ended: false } }
}
''')
ITEM('const DEFAULT_CHUNK_SIZE')
ITEM('const DEFAULT_CHUNK_OVERHEAD')
ITEM('const DEFAULT_CHUNK_AND_OVERHEAD')

IMPL('impl BodyWriter', raw='''
    /// Content-Length mode: bytes still owed
    pub open spec fn left(&self) -> Option<u64> { match self.mode { SenderMode::Sized(v) => Some(v), _ => None } }
    /// representation invariant established by the constructors and kept by every operation
    pub open spec fn wf(&self) -> bool {
        &&& (self.mode is None ==> self.ended)
        &&& (self.mode is Sized && self.ended ==> self.mode->Sized_0 == 0)
    }

    /// the complete functional behaviour of `write` in Content-Length mode (C04)
    #[verifier::prophetic]
    pub open spec fn post_write_sized(pre: &Self, post: &Self, input: Seq<u8>, w0: &Writer, w1: &Writer, r: usize) -> bool {
        let left = pre.mode->Sized_0;
        let n = min3(input.len() as int, w0.cap() - w0.out().len(), left as int);
        &&& r == n
        &&& w1.out() == w0.out() + input.subrange(0, n)
        &&& post.mode == SenderMode::Sized((left - n) as u64)
        &&& post.ended == (pre.ended || left - n == 0)
    }
    /// the complete functional behaviour of `write` in chunked mode (C03, C18, C19)
    #[verifier::prophetic]
    pub open spec fn post_write_chunked(pre: &Self, post: &Self, input: Seq<u8>, w0: &Writer, w1: &Writer, r: usize) -> bool {
        let avail = (w0.cap() - w0.out().len()) as nat;
        let emitted = w1.out().subrange(w0.out().len() as int, w1.out().len() as int);
        &&& post.mode is Chunked
        &&& w0.out().is_prefix_of(w1.out())
        &&& if input.len() > 0 {
                &&& post.ended == pre.ended
                &&& r == cc(input.len(), avail)
                &&& is_chunking(emitted, input, r as nat)
            } else {
                &&& r == 0
                &&& if pre.ended { emitted.len() == 0 && post.ended }
                    else if avail >= 5 { emitted =~= term_bytes() && post.ended }
                    else { emitted.len() == 0 && !post.ended }
            }
    }
''')
FN('new_none', props=['C09', 'C17'], ret='r', ensures=[('aux.new_none', 'r.mode is None && r.ended && r.wf()')])
FN('new_chunked', props=['C03', 'C09'], ret='r', ensures=[('aux.new_chunked', 'r.mode is Chunked && !r.ended && r.wf()')])
FN('new_sized', props=['C04', 'C09'], ret='r', ensures=[('aux.new_sized', 'r.mode == SenderMode::Sized(size) && !r.ended && r.wf()')])
FN('has_body', props=['C09', 'C17', 'C02'], ret='r', ensures=[('aux.has_body', 'r == !(self.mode is None)')])
FN('is_chunked', props=['C03', 'C18'], ret='r', ensures=[('aux.is_chunked', 'r == (self.mode is Chunked)')])
RAW('''
/// decimal digits parse back to the number and are valid header-value bytes
pub proof fn lemma_dec_digits(n: nat)
    ensures dec_str_val(dec_digits(n)) == Some(n), dec_digits(n).len() >= 1, crate::http::valid_value(dec_digits(n)),
        forall|i: int| 0 <= i < dec_digits(n).len() ==> 48 <= #[trigger] dec_digits(n)[i] <= 57
    decreases n
{
    if n >= 10 {
        Self::lemma_dec_digits(n / 10);
        let d = dec_digits(n);
        assert(d.subrange(0, d.len() - 1) =~= dec_digits(n / 10));
        assert(d[d.len() - 1] == (48 + n % 10) as u8);
    }
}
''')
FN('body_header', props=['C02'], ret='r',
   requires=[('aux.body_header.has_mode', '!(self.mode is None)')],
   ensures=[('C02.body_header_states_the_framing', '''match self.mode {
            SenderMode::Sized(n) => r.0.view() == str_bytes("content-length") && parse_dec_u64(r.1.view()) == Some(n) && crate::http::valid_value(r.1.view()),
            _ => r.0.view() == str_bytes("transfer-encoding") && r.1.view() == str_bytes("chunked") }''')],
   rewrites=[('N9', 'HeaderValue::from_str(&size.to_string())', 'HeaderValue::from_str(crate::u64_to_string(size).as_str())')],
   before=[('HeaderName::from_static("content-length"),', None)] if False else [],
   head='proof { if let SenderMode::Sized(n) = self.mode { Self::lemma_dec_digits(n as nat); } }',
   )
FN('is_ended', props=['C03', 'C04', 'C09'], ret='r', ensures=[('aux.is_ended', 'r == self.ended')])
FN('left_to_send', props=['C04'], ret='r', ensures=[('aux.left_to_send', 'r == self.left()')])

FN('finish', props=['C03'], ret='r',
   requires=[('aux.finish.wf', 'old(w).wf()')],
   ensures=[
       ('aux.finish.frame', 'old(w).same_buffer(final(w))'),
       ('C03.terminator_complete_or_nothing',
        'if self.mode is Chunked { if old(w).cap() - old(w).out().len() >= 5 { r && final(w).out() == old(w).out() + term_bytes() } else { !r && final(w).out() == old(w).out() } } else { r && final(w).out() == old(w).out() }'),
   ],
   rewrites=[('N5', '|w| w.write_all(b"0\\r\\n\\r\\n")',
              '|w: &mut Writer| -> (r: io::Result<()>) requires old(w).wf() ensures old(w).appended(final(w), term_bytes(), r) { w.write_all(lit_term()) }')],
   )

FN('write', props=['C03', 'C04', 'C18', 'C19', 'C01'], ret='r',
   requires=[
       ('aux.BodyWriter.write.has_mode', '!(old(self).mode is None)'),
       ('aux.BodyWriter.write.wf', 'old(w).wf() && old(self).wf()'),
   ],
   ensures=[
       ('aux.BodyWriter.write.frame', 'old(w).same_buffer(final(w)) && final(self).wf()'),
       ('C04.sized_write', 'old(self).mode is Sized ==> Self::post_write_sized(old(self), final(self), input@, old(w), final(w), r)'),
       ('C03.chunked_write', 'old(self).mode is Chunked ==> Self::post_write_chunked(old(self), final(self), input@, old(w), final(w), r)'),
       ('C12.counts', 'r <= input@.len()'),
   ],
   head='proof { axiom_slice_len(input); }',
   rewrites=[
       ('N5', '|w| w.write_all(&input[..to_write])',
        '|w: &mut Writer| -> (r: io::Result<()>) requires old(w).wf() ensures old(w).appended(final(w), input@.subrange(0, to_write as int), r) { w.write_all(&input[..to_write]) }'),
   ],
   loops={1: {'kw': 'while',
              'invariant': [
                  ('aux.write.loop.bounds', 'input_used <= input.len() && input.len() <= usize::MAX && input.len() > 0'),
                  ('aux.write.loop.frame', 'old(w).same_buffer(w) && w.wf() && old(w).out() == out0 && avail0 == old(w).cap() - out0.len()'),
                  ('aux.write.loop.ghost', 'prev_used == input_used && prev_out == w.out()'),
                  ('aux.write.loop.coding', 'w.out() == out0 + chunked_with(input@, sizes) && all_pos(sizes) && total(sizes) == input_used'),
                  ('aux.write.loop.exact', 'input_used + cc((input.len() - input_used) as nat, (w.cap() - w.out().len()) as nat) == cc(input.len() as nat, avail0)'),
                  ('aux.write.loop.progress', 'input_used < input.len()'),
              ],
              'decreases': 'input.len() - input_used',
              'before': '''
                    let ghost out0 = w.out();
                    let ghost avail0 = (w.cap() - w.out().len()) as nat;
                    let ghost mut sizes: Seq<nat> = Seq::empty();
                    let ghost mut prev_used: usize = 0;
                    let ghost mut prev_out: Seq<u8> = w.out();
                    proof { assert(out0 + chunked_with(input@, sizes) =~= out0); }
''',
              'body_head': '''
                        proof {
                            assert(input@.subrange(prev_used as int, input@.len() as int).subrange(0, input_used - prev_used) =~= input@.subrange(prev_used as int, input_used as int));
                            lemma_chunk_bytes_len(input@.subrange(prev_used as int, input_used as int));
                            lemma_chunking_push(input@, sizes, prev_used as nat, (input_used - prev_used) as nat, prev_out, out0, w.out());
                            sizes = sizes.push((input_used - prev_used) as nat);
                            prev_used = input_used;
                            prev_out = w.out();
                        }
''',
              'after': '''
                    proof {
                        // the last call of write_chunk (the one that returned false) may have written a chunk
                        if input_used > prev_used {
                            assert(input@.subrange(prev_used as int, input@.len() as int).subrange(0, input_used - prev_used) =~= input@.subrange(prev_used as int, input_used as int));
                            lemma_chunk_bytes_len(input@.subrange(prev_used as int, input_used as int));
                            lemma_chunking_push(input@, sizes, prev_used as nat, (input_used - prev_used) as nat, prev_out, out0, w.out());
                            sizes = sizes.push((input_used - prev_used) as nat);
                        }
                        let emitted = w.out().subrange(out0.len() as int, w.out().len() as int);
                        assert(emitted =~= chunked_with(input@, sizes));
                        assert(is_chunking(emitted, input@, input_used as nat));
                    }
'''}},
   )

FN('consume_direct_write', props=['C04'],
   requires=[
       ('aux.consume_direct_write.sized', 'old(self).mode is Sized && old(self).wf()'),
       ('aux.consume_direct_write.amount', 'amount as u64 <= old(self).mode->Sized_0'),
   ],
   ensures=[
       ('C04.direct_accounting', 'final(self).mode == SenderMode::Sized((old(self).mode->Sized_0 - amount) as u64) && final(self).ended == (old(self).ended || old(self).mode->Sized_0 == amount as u64) && final(self).wf()'),
   ])
END()

PROOF('lemma_chunking_push', ['C03'], '''
/// appending one non-empty chunk of the next k input bytes extends a valid coding
pub proof fn lemma_chunking_push(inp: Seq<u8>, sizes: Seq<nat>, used: nat, k: nat, o1: Seq<u8>, o0: Seq<u8>, o2: Seq<u8>)
    requires
        all_pos(sizes), total(sizes) == used, k > 0, used + k <= inp.len(),
        o1 == o0 + chunked_with(inp, sizes),
        o2 == o1 + chunk_bytes(inp.subrange(used as int, (used + k) as int)),
    ensures
        all_pos(sizes.push(k)), total(sizes.push(k)) == used + k,
        o2 == o0 + chunked_with(inp, sizes.push(k)),
{
    let s2 = sizes.push(k);
    assert(s2.drop_last() =~= sizes);
    assert(s2.last() == k);
    assert(o2 =~= o0 + chunked_with(inp, s2));
}
''')

FN('calculate_max_input', props=['C18', 'C19'], ret='r',
   ensures=[
       # `model.`: the closed form is this framework's CHOICE of a function for which C18 (<= n, monotone, a write of that many
       # bytes is consumed whole) is proved by the lemmas; another formula may satisfy C18 as well.  If the code no longer
       # matches the model, C18 is undecided by the verifier (never an alarm): the twin and the Kani harness, which check the
       # property itself on the real functions, decide.
       ('model.calculate_max_input.closed_form', 'r == spec_max_input(output_len as nat)'),
       ('C18.le_n', 'r <= output_len'),
   ],
   head='proof { lemma_max_input_le_and_monotone(output_len as nat, output_len as nat); }')

FN('hex_len', props=['C03', 'C18', 'C19'], ret='r',
   ensures=[('aux.hex_len', 'r == spec_hex_len(v as nat)')],
   rewrites=[('N13', 'let mut n = 1;', 'let mut n: usize = 1;')],
   head='let ghost v0 = v; proof { lemma_hex_len_usize(v0 as nat); }',
   loops={1: {'kw': 'while',
              'invariant': [('aux.hex_len.loop', 'n + spec_hex_len(v as nat) == spec_hex_len(v0 as nat) + 1 && n >= 1 && spec_hex_len(v0 as nat) <= 16')],
              'decreases': 'v'}},
   )

FN('max_chunk_data', props=['C03', 'C18', 'C19'], ret='r',
   ensures=[
       ('aux.max_chunk_data.closed_form', 'r == spec_max_fit(available as nat)'),
       ('C18/C19.largest_chunk_that_fits', '(r > 0 ==> chunk_len(r as nat) <= available) && (forall|t: nat| t > r ==> chunk_len(t) > available) && (available >= 6 ==> r >= 1)'),
   ],
   head='''proof {
        lemma_max_fit(available as nat);
        let room = if available >= 4 { (available - 4) as nat } else { 0 };
        lemma_hex_len_usize(room); lemma_hex_len_bound(room);
        let fit = if room >= spec_hex_len(room) { (room - spec_hex_len(room)) as nat } else { 0 };
        lemma_hex_len_usize(fit + 1); lemma_hex_len_mono(fit + 1, if room >= 2 { room } else { fit + 1 });
    }''')

FN('write_chunk', props=['C03', 'C18', 'C19', 'C01'], ret='again',
   requires=[
       ('aux.write_chunk.wf', 'old(w).wf()'),
       ('aux.write_chunk.no_overflow', '*old(input_used) + input.len() <= usize::MAX'),
   ],
   ensures=[
       ('aux.write_chunk.frame', 'old(w).same_buffer(final(w))'),
       ('aux.write_chunk.exact', '''({
            let avail = (old(w).cap() - old(w).out().len()) as nat;
            let tw = min3(input.len() as int, max_chunk as int, spec_max_fit(avail) as int);
            if tw > 0 {
                &&& final(w).out() == old(w).out() + chunk_bytes(input@.subrange(0, tw))
                &&& *final(input_used) == *old(input_used) + tw
                &&& again == (input.len() > tw)
                &&& chunk_len(tw as nat) <= avail
            } else {
                &&& final(w).out() == old(w).out()
                &&& *final(input_used) == *old(input_used)
                &&& !again
            }
        })'''),
       ('C03.complete_nonempty_chunk_or_nothing', '''({
            let n = *final(input_used) - *old(input_used);
            &&& 0 <= n <= input.len()
            &&& if n > 0 { final(w).out() == old(w).out() + chunk_bytes(input@.subrange(0, n)) } else { final(w).out() == old(w).out() }
        })'''),
   ],
   head='proof { axiom_slice_len(input); lemma_max_fit((w.cap() - w.out().len()) as nat); }',
   rewrites=[
       ('N4', 'write!(w, "{:0x?}\\r\\n", to_write)?;', 'w.fmt_hex_crlf(to_write)?;'),
       ('N4', 'write!(w, "\\r\\n")', 'w.fmt_crlf()'),
       ('N5', 'w.try_write(|w| {', '''w.try_write(|w: &mut Writer| -> (r: io::Result<()>)
        requires old(w).wf()
        ensures old(w).same_buffer(final(w)), old(w).out().is_prefix_of(final(w).out()),
            r is Ok <==> old(w).out().len() + chunk_len(to_write as nat) <= old(w).cap(),
            r is Ok ==> final(w).out() =~= old(w).out() + chunk_bytes(input@.subrange(0, to_write as int)),
    {
        proof { lemma_chunk_bytes_len(input@.subrange(0, to_write as int)); lemma_hex_len(to_write as nat); }'''),
   ],
   before=[('let success = w.try_write(', 'proof { lemma_chunk_len_mono(to_write as nat, spec_max_fit((w.cap() - w.out().len()) as nat)); }')],
   )

# =============================================================================
# BodyReader (C06 framing decision, C07 chunked, C08 length / close delimited, C12)
# =============================================================================
RAW('''
use crate::chunk::{Dechunker, is_subseq, dechunker_wf, lemma_subseq_extend_both, lemma_subseq_extend_b, lemma_subseq_refl, lemma_subseq_concat, spec_parse, ParseOut, lemma_parse_basic};
use crate::http::{HeaderName, HeaderValue, Method};
use crate::error::Error;

/// how a response body is delimited (C06)
pub enum Framing { NoBody, Length(u64), Chunked, Close }
/// N9: `value.split(',').map(|v| v.trim()).any(|v| compare_lowercase_ascii(v, "chunked"))`
/// - does a Transfer-Encoding field value declare the chunked coding (uninterpreted; bounded stand-in)
pub uninterp spec fn te_declares_chunked(value: Seq<u8>) -> bool;
#[verifier::external_body]
pub fn te_declares_chunked_exec(value: &str) -> (r: bool)
    ensures r == te_declares_chunked(str_bytes(value))
{ unimplemented!() }

/// C06, written from the statement of the property (RFC 9112 section 6.3): None = error
pub open spec fn framing(m: Method, status: u16, http10: bool, cl: Option<Seq<u8>>, te: Option<Seq<u8>>) -> Option<Framing> {
    let te_chunked = (te matches Some(v) && te_declares_chunked(v)) && !http10;
    if cl matches Some(v) && parse_dec_u64(v) is None { None }
    else if m == Method::HEAD || (200 <= status <= 299 && m == Method::CONNECT) || (100 <= status <= 199) || status == 204 || status == 304 { Some(Framing::NoBody) }
    else if 300 <= status <= 399 && cl is None && !te_chunked { Some(Framing::NoBody) }
    else if te_chunked { Some(Framing::Chunked) }
    else if cl is Some { Some(Framing::Length(parse_dec_u64(cl->Some_0)->Some_0)) }
    else { Some(Framing::Close) }
}
pub open spec fn reader_framing(r: BodyReader) -> Framing {
    match r { BodyReader::NoBody => Framing::NoBody, BodyReader::LengthDelimited(n) => Framing::Length(n), BodyReader::Chunked(_) => Framing::Chunked, BodyReader::CloseDelimited => Framing::Close }
}
pub open spec fn opt_bytes(o: Option<&str>) -> Option<Seq<u8>> { match o { Some(s) => Some(str_bytes(s)), None => None } }
/// the lookup closure can be called with any name
pub open spec fn lookup_ok<'a, F: Fn(&str) -> Option<&'a str>>(f: &F) -> bool {
    forall|s: &str| #[trigger] f.requires((s,))
}
/// the lookup closure answers like the spec function `hdr` (name bytes -> value bytes)
pub open spec fn lookup_is<'a, F: Fn(&str) -> Option<&'a str>>(f: &F, hdr: spec_fn(Seq<u8>) -> Option<Seq<u8>>) -> bool {
    forall|s: &str, o: Option<&'a str>| #[trigger] f.ensures((s,), o) ==> opt_bytes(o) == hdr(str_bytes(s))
}
pub open spec fn reader_wf(r: BodyReader) -> bool { r is Chunked ==> dechunker_wf(r->Chunked_0) }

/// `read_chunked` as a function of (decoder state, window, room, boundary stop): `parse_input` is repeated until it makes
/// no progress, the window or the room is used up, the body ended, or (boundary stop) a chunk boundary is reached
#[verifier::opaque]
pub open spec fn spec_read(s: Dechunker, win: Seq<u8>, room: int, stop: bool) -> Option<ParseOut>
    decreases win.len()
{
    match spec_parse(s, win, room) {
        None => None,
        Some(r) =>
            if r.i <= 0 || r.i >= win.len() || r.out.len() >= room || r.state is Ended || (stop && r.state is Size) { Some(r) }
            else { match spec_read(r.state, win.subrange(r.i, win.len() as int), room - r.out.len(), stop) {
                None => None,
                Some(r2) => Some(ParseOut { state: r2.state, i: r.i + r2.i, out: r.out + r2.out }),
            } },
    }
}
pub proof fn lemma_read_unfold(s: Dechunker, win: Seq<u8>, room: int, stop: bool)
    ensures spec_read(s, win, room, stop) == (match spec_parse(s, win, room) {
        None => None,
        Some(r) =>
            if r.i <= 0 || r.i >= win.len() || r.out.len() >= room || r.state is Ended || (stop && r.state is Size) { Some(r) }
            else { match spec_read(r.state, win.subrange(r.i, win.len() as int), room - r.out.len(), stop) {
                None => None,
                Some(r2) => Some(ParseOut { state: r2.state, i: r.i + r2.i, out: r.out + r2.out }),
            } },
    })
{
    reveal(spec_read);
}
/// C12 for arbitrary bytes, derived from the interpreter
pub proof fn lemma_read_basic(s: Dechunker, win: Seq<u8>, room: int, stop: bool)
    requires room >= 0, dechunker_wf(s),
    ensures spec_read(s, win, room, stop) matches Some(p) ==> 0 <= p.i <= win.len() && p.out.len() <= room && dechunker_wf(p.state)
            && is_subseq(p.out, win.subrange(0, p.i)) && (s is Ended ==> p.i == 0 && p.out.len() == 0 && p.state is Ended),
        s is Ended ==> spec_read(s, win, room, stop) is Some,
    decreases win.len()
{
    lemma_read_unfold(s, win, room, stop);
    lemma_parse_basic(s, win, room);
    if s is Ended { crate::chunk::lemma_parse_unfold(s, win, room); }
    match spec_parse(s, win, room) {
        None => {}
        Some(r) => {
            if !(r.i <= 0 || r.i >= win.len() || r.out.len() >= room || r.state is Ended || (stop && r.state is Size)) {
                let rest = win.subrange(r.i, win.len() as int);
                lemma_read_basic(r.state, rest, room - r.out.len(), stop);
                match spec_read(r.state, rest, room - r.out.len(), stop) {
                    Some(r2) => {
                        assert(rest.subrange(0, r2.i) =~= win.subrange(r.i, r.i + r2.i));
                        lemma_subseq_concat(r.out, win.subrange(0, r.i), r2.out, rest.subrange(0, r2.i));
                        assert(win.subrange(0, r.i) + rest.subrange(0, r2.i) =~= win.subrange(0, r.i + r2.i));
                    }
                    None => {}
                }
            }
        }
    }
}
''')

ITEM('enum BodyReader', derive_add=['Structural'])
ITEM('enum BodyMode', derive_add=['Structural'])

IMPL('impl BodyReader')
FN('body_mode', props=['C06', 'C08'], ret='r',
   ensures=[('C06.body_mode_reports_framing', '''match *self { BodyReader::NoBody => r == BodyMode::NoBody, BodyReader::LengthDelimited(v) => r == BodyMode::LengthDelimited(v),
            BodyReader::Chunked(_) => r == BodyMode::Chunked, BodyReader::CloseDelimited => r == BodyMode::CloseDelimited }''')])

LOOKUP_REQ = [('aux.lookup_is_function', 'lookup_ok(header_lookup)')]
FN('for_response', props=['C06', 'C08', 'C12'], ret='r',
   requires=LOOKUP_REQ,
   ensures=[
       ('C06.mode_table', '''forall|hdr: spec_fn(Seq<u8>) -> Option<Seq<u8>>| #[trigger] lookup_is(header_lookup, hdr) ==>
            match framing(*method, status_code, http10, hdr(str_bytes("content-length")), hdr(str_bytes("transfer-encoding"))) {
                Some(f) => r is Ok && reader_framing(r->Ok_0) == f && (r->Ok_0 is Chunked ==> r->Ok_0->Chunked_0 == Dechunker::Size),
                None => r is Err,
            }'''),
   ],
   rewrites=[('N6', "header_lookup: &'a dyn Fn(&str) -> Option<&'a str>", "header_lookup: &'a impl Fn(&str) -> Option<&'a str>")],
   )
FN('header_defined', props=['C06', 'C08', 'C12'], ret='r',
   requires=LOOKUP_REQ,
   ensures=[
       ('aux.header_defined.table', '''forall|hdr: spec_fn(Seq<u8>) -> Option<Seq<u8>>| #[trigger] lookup_is(header_lookup, hdr) ==> ({
            let cl = hdr(str_bytes("content-length")); let te = hdr(str_bytes("transfer-encoding"));
            let te_chunked = (te matches Some(v) && te_declares_chunked(v)) && !http10;
            if cl matches Some(v) && parse_dec_u64(v) is None { r is Err }
            else if te_chunked { r == Ok::<Self, Error>(BodyReader::Chunked(Dechunker::Size)) }
            else if cl is Some { r == Ok::<Self, Error>(BodyReader::LengthDelimited(parse_dec_u64(cl->Some_0)->Some_0)) }
            else { r == Ok::<Self, Error>(BodyReader::CloseDelimited) } })'''),
   ],
   head='broadcast use axiom_parse_u64;',
   rewrites=[
       ('N6', "header_lookup: &'a dyn Fn(&str) -> Option<&'a str>", "header_lookup: &'a impl Fn(&str) -> Option<&'a str>"),
       ('N5', '.map_err(|_| Error::BadContentLengthHeader)?', '.map_err(|_e: core::num::ParseIntError| -> (e2: Error) ensures e2 == Error::BadContentLengthHeader { Error::BadContentLengthHeader })?'),
       ('N9', '''value
                .split(',')
                .map(|v| v.trim())
                .any(|v| compare_lowercase_ascii(v, "chunked"))''', 'te_declares_chunked_exec(value)'),
   ],
   )

FN('read', props=['C07', 'C08', 'C12', 'C01'], ret='r',
   requires=[('aux.BodyReader.read.wf', 'reader_wf(*old(self))')],
   ensures=[
       ('aux.BodyReader.read.frame', 'final(dst).len() == old(dst).len() && reader_wf(*final(self))'),
       ('C12.counts', 'r is Ok ==> r->Ok_0.0 <= src.len() && r->Ok_0.1 <= old(dst).len()'),
       ('C12.copy_in_order', 'r is Ok ==> is_subseq(final(dst)@.subrange(0, r->Ok_0.1 as int), src@.subrange(0, r->Ok_0.0 as int))'),
       ('C08.length_delimited', '*old(self) is LengthDelimited ==> Self::post_read_limit(*old(self), *final(self), src@, old(dst)@, final(dst)@, r)'),
       ('C08.close_delimited', '*old(self) is CloseDelimited ==> Self::post_read_unlimit(*old(self), *final(self), src@, old(dst)@, final(dst)@, r)'),
       ('C07.chunked', '*old(self) is Chunked ==> Self::post_read_chunked(*old(self), *final(self), src@, old(dst).len() as int, final(dst)@, stop_on_chunk_boundary, r)'),
       ('aux.BodyReader.read.nobody', '*old(self) is NoBody ==> r == Ok::<(usize, usize), Error>((0usize, 0usize)) && *final(self) == *old(self)'),
   ],
   head='proof { axiom_slice_len(src); }',
   before=[('log_data(&src[..part.0]);', '''proof {
            if !(*old(self) is Chunked) {
                lemma_subseq_refl(src@.subrange(0, part.0 as int));
                assert(dst@.subrange(0, part.1 as int) =~= src@.subrange(0, part.0 as int));
            }
        }''')],
   )

RAW('''
    /// C08: one read of a Content-Length body moves min(input, output space, remaining) bytes unchanged
    pub open spec fn post_read_limit(pre: Self, post: Self, src: Seq<u8>, dst0: Seq<u8>, dst1: Seq<u8>, r: Result<(usize, usize), Error>) -> bool {
        let left = pre->LengthDelimited_0;
        let n = min3(src.len() as int, dst0.len() as int, left as int);
        &&& r == Ok::<(usize, usize), Error>((n as usize, n as usize))
        &&& post == BodyReader::LengthDelimited((left - n) as u64)
        &&& dst1.subrange(0, n) =~= src.subrange(0, n)
        &&& dst1.subrange(n, dst1.len() as int) =~= dst0.subrange(n, dst0.len() as int)
    }
    /// C08: a close-delimited body passes every offered byte through unchanged
    pub open spec fn post_read_unlimit(pre: Self, post: Self, src: Seq<u8>, dst0: Seq<u8>, dst1: Seq<u8>, r: Result<(usize, usize), Error>) -> bool {
        let n = min2(src.len() as int, dst0.len() as int);
        &&& r == Ok::<(usize, usize), Error>((n as usize, n as usize))
        &&& post == pre
        &&& dst1.subrange(0, n) =~= src.subrange(0, n)
        &&& dst1.subrange(n, dst1.len() as int) =~= dst0.subrange(n, dst0.len() as int)
    }
    /// C07: a chunked read is exactly the spec-level interpreter `spec_read` applied to (decoder state, window, room, stop)
    pub open spec fn post_read_chunked(pre: Self, post: Self, src: Seq<u8>, dst0_len: int, dst1: Seq<u8>, stop: bool, r: Result<(usize, usize), Error>) -> bool {
        match spec_read(pre->Chunked_0, src, dst0_len, stop) {
            None => r is Err,
            Some(p) => r == Ok::<(usize, usize), Error>((p.i as usize, p.out.len() as usize)) && p.i >= 0 && post == BodyReader::Chunked(p.state) && dst1.subrange(0, p.out.len() as int) == p.out,
        }
    }
''')

FN('read_limit', props=['C08', 'C12', 'C01'], ret='r',
   requires=[('aux.read_limit.mode', '*old(self) is LengthDelimited')],
   ensures=[
       ('aux.read_limit.frame', 'final(dst).len() == old(dst).len()'),
       ('C08.copy_min3', 'Self::post_read_limit(*old(self), *final(self), src@, old(dst)@, final(dst)@, r)'),
   ],
   head='proof { axiom_slice_len(src); axiom_slice_len(dst); }')

FN('read_unlimit', props=['C08', 'C12', 'C01'], ret='r',
   ensures=[
       ('aux.read_unlimit.frame', 'final(dst).len() == old(dst).len()'),
       ('C08.passthrough', 'Self::post_read_unlimit(*old(self), *final(self), src@, old(dst)@, final(dst)@, r)'),
   ],
   head='proof { axiom_slice_len(src); axiom_slice_len(dst); }')

FN('read_chunked', props=['C07', 'C12', 'C01'], ret='r',
   requires=[('aux.read_chunked.mode', '*old(self) is Chunked && dechunker_wf(old(self)->Chunked_0)')],
   ensures=[
       ('aux.read_chunked.frame', 'final(dst).len() == old(dst).len() && reader_wf(*final(self)) && *final(self) is Chunked'),
       ('C07.read_chunked_is_the_interpreter', 'Self::post_read_chunked(*old(self), *final(self), src@, old(dst).len() as int, final(dst)@, stop_on_chunk_boundary, r)'),
       ('C12.counts', 'r is Ok ==> r->Ok_0.0 <= src.len() && r->Ok_0.1 <= old(dst).len()'),
       ('C12.copy_in_order', 'r is Ok ==> is_subseq(final(dst)@.subrange(0, r->Ok_0.1 as int), src@.subrange(0, r->Ok_0.0 as int))'),
       ('C07.ended_consumes_nothing', 'old(self)->Chunked_0 is Ended ==> r == Ok::<(usize, usize), Error>((0usize, 0usize)) && *final(self) == *old(self)'),
   ],
   head='proof { axiom_slice_len(src); axiom_slice_len(dst); } let ghost fself = *final(self);',
   attrs=['verifier::loop_isolation(false)', 'verifier::allow_complex_invariants'],
   loops={1: {'kw': 'loop',
              'before': '''
        let ghost s0 = *dechunker;
        let ghost mut p_in: usize = 0;
        let ghost mut p_out: usize = 0;
        let ghost mut p_dst: Seq<u8> = dst@;
        proof {
            assert(src@.subrange(0, src.len() as int) =~= src@);
            match spec_read(s0, src@, dst.len() as int, stop_on_chunk_boundary) { Some(q) => { assert(dst@.subrange(0, 0) + q.out =~= q.out); } None => {} }
            lemma_read_basic(s0, src@, dst.len() as int, stop_on_chunk_boundary);
        }
''',
              'invariant': [
                  ('aux.read_chunked.loop.bounds', 'input_used <= src.len() && output_used <= dst.len() && dst.len() == old(dst).len() && src.len() <= usize::MAX && dst.len() <= usize::MAX'),
                  ('aux.read_chunked.loop.state', 'dechunker_wf(*dechunker) && fself == BodyReader::Chunked(*final(dechunker))'),
              ],
              'invariant_except_break': [
                  ('aux.read_chunked.loop.interpreter', '''match spec_read(*dechunker, src@.subrange(input_used as int, src.len() as int), dst.len() - output_used, stop_on_chunk_boundary) {
                        None => spec_read(s0, src@, dst.len() as int, stop_on_chunk_boundary) is None,
                        Some(q) => spec_read(s0, src@, dst.len() as int, stop_on_chunk_boundary) == Some(ParseOut { state: q.state, i: input_used + q.i, out: dst@.subrange(0, output_used as int) + q.out }) }'''),
              ],
              'ensures': [('aux.read_chunked.loop.exit_interpreter', 'spec_read(s0, src@, dst.len() as int, stop_on_chunk_boundary) == Some(ParseOut { state: *dechunker, i: input_used as int, out: dst@.subrange(0, output_used as int) })')],
              'decreases': 'src.len() - input_used',
              'body_head': '''
            proof { p_in = input_used; p_out = output_used; p_dst = dst@;
                    lemma_read_unfold(*dechunker, src@.subrange(input_used as int, src.len() as int), dst.len() - output_used, stop_on_chunk_boundary); }
''',
              }},
   # (anchored at the statement that follows BOTH counter updates, so that their order does not matter)
   before=[('if i == 0 ||', '''
            proof {
                let win0 = src@.subrange(p_in as int, src.len() as int);
                assert(win0.subrange(i as int, win0.len() as int) =~= src@.subrange(input_used as int, src.len() as int));
                assert(dst@.subrange(p_out as int, dst.len() as int).subrange(0, o as int) =~= dst@.subrange(p_out as int, output_used as int));
                assert(dst@.subrange(0, p_out as int) =~= p_dst.subrange(0, p_out as int));
                assert(dst@.subrange(0, output_used as int) =~= p_dst.subrange(0, p_out as int) + dst@.subrange(p_out as int, output_used as int));
                match spec_read(*dechunker, src@.subrange(input_used as int, src.len() as int), dst.len() - output_used, stop_on_chunk_boundary) {
                    Some(q) => { let a = p_dst.subrange(0, p_out as int); let b = dst@.subrange(p_out as int, output_used as int); assert((a + b) + q.out =~= a + (b + q.out)); }
                    None => {}
                }
            }
''')],
   )

FN('is_ended', props=['C07', 'C08', 'C09'], ret='r',
   ensures=[('C07/C08/C09.complete_iff', '''r == match *self { BodyReader::NoBody => true, BodyReader::LengthDelimited(v) => v == 0,
            BodyReader::Chunked(d) => d is Ended, BodyReader::CloseDelimited => false }''')])
FN('is_on_chunk_boundary', props=['C07'], ret='r',
   # (only the chunked case is pinned: C07 does not say what the query answers for bodies that have no chunks)
   ensures=[('aux.BodyReader.is_on_chunk_boundary', '*self is Chunked ==> r == (self->Chunked_0 is Size)')])
END()


