# src/client/call.rs : one request/response (C02 C03 C04 C05 C06 C08 C09 C17 C01)

MODULE('client::call', 'src/client/call.rs', uses='''
use crate::*;
use crate::io;
use std::marker::PhantomData;
use crate::http::{HeaderName, HeaderValue, Method, Request, Response, StatusCode, Version, Hdr};
use crate::body::{BodyReader, BodyWriter, BodyMode, SenderMode};
use crate::parser::{try_parse_partial_response, try_parse_response};
use crate::util::{log_data, Writer};
use crate::error::Error;
use crate::client::amended::{AmendedRequest, HIter, items_are, lit};
use crate::client::MAX_RESPONSE_HEADERS;
use self::state::*;
use vstd::std_specs::iter::IteratorSpec;
''')

ITEM('mod state')
ITEM('struct Call')
ITEM('struct BodyState', derive_drop=['Default', 'Debug'])
ITEM('enum Phase', derive_add=['Structural'])
ITEM('impl Default for Phase')

RAW('''
// N10: #[derive(Default)] of BodyState written out field-wise
impl Default for BodyState {
    fn default() -> (r: Self)
        ensures r.phase == Phase::SendLine, r.writer.mode is None, !r.writer.ended, r.reader is None, !r.skip_method_body_check, !r.stop_on_chunk_boundary
    { BodyState { phase: Phase::SendLine, writer: BodyWriter::default(), reader: None, skip_method_body_check: false, stop_on_chunk_boundary: false } }
}

// N4: the two remaining `write!` format strings of the crate, as assumed append-or-fail contracts
impl<'a> Writer<'a> {
    /// write!(w, "{} {} {:?}\\r\\n", method, path, version)
    #[verifier::external_body]
    pub fn fmt_request_line(&mut self, m: &Method, p: &str, v: Version) -> (r: io::Result<()>)
        requires old(self).wf()
        ensures old(self).appended(final(self), spec_request_line(*m, str_bytes(p), v), r)
    { unimplemented!() }
    /// write!(w, "{}: ", name)
    #[verifier::external_body]
    pub fn fmt_name_colon(&mut self, n: &HeaderName) -> (r: io::Result<()>)
        requires old(self).wf()
        ensures old(self).appended(final(self), n.view() + seq![58u8, 32u8], r)
    { unimplemented!() }
}

// ------------------------------------------------------------------ C02: the request head as a byte string
pub open spec fn spec_request_line(m: Method, pq: Seq<u8>, v: Version) -> Seq<u8> { m.bytes() + seq![32u8] + pq + seq![32u8] + v.bytes() + crlf() }
/// one header line; the last one carries the blank line that ends the head
pub open spec fn header_line(h: Hdr, last: bool) -> Seq<u8> {
    h.name + seq![58u8, 32u8] + h.value + crlf() + (if last { crlf() } else { Seq::<u8>::empty() })
}
/// lines `from .. to` of the header block (indices into the effective header list)
pub open spec fn header_lines(eff: Seq<Hdr>, from: int, to: int) -> Seq<u8>
    decreases to - from
{
    if to <= from { Seq::<u8>::empty() } else { header_lines(eff, from, to - 1) + header_line(eff[to - 1], to == eff.len()) }
}
pub open spec fn item_hdr(item: (&HeaderName, &HeaderValue)) -> Hdr { Hdr { name: item.0.view(), value: item.1.view() } }
''')

IMPL('impl Phase')
FN('is_prelude', props=['C02', 'C09'], ret='r', ensures=[('aux.Phase.is_prelude', 'r == (*self is SendLine || *self is SendHeaders)')])
FN('is_body', props=['C02', 'C09'], ret='r', ensures=[('aux.Phase.is_body', 'r == (*self is SendBody)')])
END()

FN('do_write_send_line', props=['C02', 'C01'], ret='r',
   requires=[('aux.do_write_send_line.wf', 'old(w).wf()')],
   ensures=[
       ('aux.do_write_send_line.frame', 'old(w).same_buffer(final(w))'),
       ('C02.request_line_whole_or_nothing', '''({
            let bytes = spec_request_line(*line.0, str_bytes(line.1), line.2);
            if old(w).out().len() + bytes.len() <= old(w).cap() { r && final(w).out() == old(w).out() + bytes } else { !r && final(w).out() == old(w).out() }
        })'''),
   ],
   rewrites=[('N4+N5', 'w.try_write(|w| write!(w, "{} {} {:?}\\r\\n", line.0, line.1, line.2))',
              'w.try_write(|w: &mut Writer| -> (r: io::Result<()>) requires old(w).wf() ensures old(w).appended(final(w), spec_request_line(*line.0, str_bytes(line.1), line.2), r) { w.fmt_request_line(line.0, line.1, line.2) })')],
   )

FN('do_write_headers', props=['C02', 'C01', 'C16'],
   requires=[
       ('aux.do_write_headers.wf', 'old(w).wf()'),
       ('aux.do_write_headers.iter', 'headers.obeys_prophetic_iter_laws() && headers.decrease() is Some'),
       ('aux.do_write_headers.no_overflow', '*old(index) + headers.remaining().len() <= usize::MAX'),
   ],
   ensures=[
       ('aux.do_write_headers.frame', 'old(w).same_buffer(final(w))'),
       ('C02.header_lines_whole_and_maximal', '''({
            let items = headers.remaining();
            let k = *final(index) - *old(index);
            &&& 0 <= k <= items.len()
            &&& final(w).out() == old(w).out() + item_lines(items, 0, k, *old(index) as int, last_index as int)
            &&& (k < items.len() ==> final(w).out().len() + header_line(item_hdr(items[k]), *old(index) + k == last_index).len() > final(w).cap())
        })'''),
   ],
   rewrites=[
       ('N11', 'for h in headers {', 'let mut headers = headers; loop { let h = match headers.next() { Some(h) => h, None => break };'),
       ('N4', 'write!(w, "{}: ", h.0)?;', 'w.fmt_name_colon(h.0)?;'),
       ('N4', 'write!(w, "\\r\\n")?;', 'w.fmt_crlf()?;', '*'),
       ('N5', 'w.try_write(|w| {', '''w.try_write(|w: &mut Writer| -> (r: io::Result<()>)
            requires old(w).wf(), old(w).out() == s_out, old(w).cap() == s_cap, old(w).fin() == s_fin
            ensures final(w).wf(), final(w).cap() == s_cap, final(w).fin() == s_fin, s_out.is_prefix_of(final(w).out()),
                r is Ok <==> s_out.len() + header_line(item_hdr(h), s_last).len() <= s_cap,
                r is Ok ==> final(w).out() =~= s_out + header_line(item_hdr(h), s_last),
        {'''),
   ],
   head='let ghost items = headers.remaining(); let ghost index0 = *index; let ghost mut done: int = 0;',
   loops={1: {'kw': 'loop',
              'invariant': [
                  ('aux.do_write_headers.loop.iter', 'headers.obeys_prophetic_iter_laws() && headers.decrease() is Some'),
                  ('aux.do_write_headers.loop.frame', 'old(w).same_buffer(w) && w.wf()'),
                  ('aux.do_write_headers.loop.count', '0 <= done <= items.len() && *index == index0 + done && index0 + items.len() <= usize::MAX'),
                  ('aux.do_write_headers.loop.out', 'w.out() == old(w).out() + item_lines(items, 0, done, index0 as int, last_index as int)'),
              ],
              'invariant_except_break': [
                  ('aux.do_write_headers.loop.remaining', 'headers.remaining() == items.skip(done)'),
              ],
              'ensures': [
                  ('aux.do_write_headers.loop.exit', 'done < items.len() ==> w.out().len() + header_line(item_hdr(items[done]), index0 + done == last_index).len() > w.cap()'),
              ],
              'decreases': 'headers.decrease()->Some_0'}},
   before=[('let success = w.try_write(', 'let ghost s_out = w.out(); let ghost s_cap = w.cap(); let ghost s_fin = w.fin(); let ghost s_last = (*index == last_index);'),
           ('if success {', 'proof { if success { assert(item_lines(items, 0, done + 1, index0 as int, last_index as int) =~= item_lines(items, 0, done, index0 as int, last_index as int) + header_line(item_hdr(items[done]), index0 + done == last_index)); done = done + 1; } }')],
   )

RAW('''
/// the lines written for items[from..to), the item with absolute index `last` carrying the blank line
pub open spec fn item_lines(items: Seq<(&HeaderName, &HeaderValue)>, from: int, to: int, base: int, last: int) -> Seq<u8>
    decreases to - from
{
    if to <= from { Seq::<u8>::empty() } else { item_lines(items, from, to - 1, base, last) + header_line(item_hdr(items[to - 1]), base + to - 1 == last) }
}
''')

# ------------------------------------------------------------------ the head as a schedule-free byte string
RAW('''
/// the request line of an (analysed) request: method, path-and-query of the EFFECTIVE uri ("/" if empty), version
pub open spec fn request_line<B>(req: &AmendedRequest<B>) -> Seq<u8> {
    spec_request_line(req.request.spec_method(),
        match req.eff_uri().spec_path_and_query() { Some(p) => p, None => lit("/") },
        req.request.spec_version())
}
/// the part of the head that is still to be emitted in a given phase
pub open spec fn head_from<B>(req: &AmendedRequest<B>, phase: Phase) -> Seq<u8> {
    let n = req.eff().len() as int;
    match phase {
        Phase::SendLine => request_line(req) + header_lines(req.eff(), 0, n),
        Phase::SendHeaders(i) => header_lines(req.eff(), i as int, n),
        _ => Seq::<u8>::empty(),
    }
}
/// C02: the complete request head
pub open spec fn spec_head<B>(req: &AmendedRequest<B>) -> Seq<u8> { head_from(req, Phase::SendLine) }
/// the next line that has to fit before anything can be emitted
pub open spec fn next_line<B>(req: &AmendedRequest<B>, phase: Phase) -> Seq<u8> {
    match phase {
        Phase::SendLine => request_line(req),
        Phase::SendHeaders(i) => header_line(req.eff()[i as int], i + 1 == req.eff().len()),
        _ => Seq::<u8>::empty(),
    }
}
pub open spec fn phase_ok<B>(req: &AmendedRequest<B>, phase: Phase) -> bool {
    req.eff().len() >= 1 && (phase matches Phase::SendHeaders(i) ==> i < req.eff().len())
}
/// C02 / C01: one call of the head writer emits the next whole lines: what was still to do == what was emitted ++ what is still to do
pub open spec fn head_step<B>(req: &AmendedRequest<B>, p0: Phase, p1: Phase, emitted: Seq<u8>) -> bool {
    head_from(req, p0) == emitted + head_from(req, p1) && phase_ok(req, p1)
}
''')

PROOF('lemma_header_lines', ['C02', 'C01'], '''
pub proof fn lemma_header_lines_split(eff: Seq<Hdr>, a: int, b: int, c: int)
    requires 0 <= a <= b <= c <= eff.len()
    ensures header_lines(eff, a, c) == header_lines(eff, a, b) + header_lines(eff, b, c)
    decreases c - b
{
    if c == b {
        assert(header_lines(eff, a, b) + header_lines(eff, b, c) =~= header_lines(eff, a, b));
    } else {
        lemma_header_lines_split(eff, a, b, c - 1);
        assert(header_lines(eff, a, c) =~= header_lines(eff, a, b) + header_lines(eff, b, c));
    }
}
pub proof fn lemma_item_lines_are_header_lines(items: Seq<(&HeaderName, &HeaderValue)>, eff: Seq<Hdr>, i: int, k: int)
    requires 0 <= i, 0 <= k <= items.len(), items_are(items, eff.skip(i)), i <= eff.len()
    ensures item_lines(items, 0, k, i, eff.len() - 1) == header_lines(eff, i, i + k)
    decreases k
{
    if k > 0 {
        lemma_item_lines_are_header_lines(items, eff, i, k - 1);
        assert(eff.skip(i)[k - 1] == eff[i + k - 1]);
        assert(item_hdr(items[k - 1]) == eff[i + k - 1]);
    }
}
''')

FN('try_write_prelude_part', props=['C02', 'C01', 'C16'], ret='r',
   requires=[
       ('aux.try_write_prelude_part.wf', 'old(w).wf()'),
       ('C02.quantifier_at_least_one_header', 'phase_ok(request, old(state).phase)'),
   ],
   ensures=[
       ('aux.try_write_prelude_part.frame', '''old(w).same_buffer(final(w)) && old(w).out().is_prefix_of(final(w).out()) && final(state).writer == old(state).writer && final(state).reader == old(state).reader
            && final(state).skip_method_body_check == old(state).skip_method_body_check && final(state).stop_on_chunk_boundary == old(state).stop_on_chunk_boundary'''),
       ('C02.whole_lines', 'head_step(request, old(state).phase, final(state).phase, final(w).out().subrange(old(w).out().len() as int, final(w).out().len() as int))'),
       ('C02.maximal', '(final(state).phase is SendLine || final(state).phase is SendHeaders) && !r ==> final(w).out().len() + next_line(request, final(state).phase).len() > final(w).cap()'),
       ('aux.try_write_prelude_part.again', 'r ==> old(state).phase is SendLine && final(state).phase == Phase::SendHeaders(0) && final(w).out().len() > old(w).out().len()'),
       ('aux.try_write_prelude_part.stuck', '!r && final(w).out().len() == old(w).out().len() ==> final(state).phase == old(state).phase'),
       ('aux.try_write_prelude_part.sending', '(old(state).phase is SendLine || old(state).phase is SendHeaders || old(state).phase is SendBody) ==> (final(state).phase is SendLine || final(state).phase is SendHeaders || final(state).phase is SendBody)'),
       ('C02.progress_iff_next_line_fits', '(old(state).phase is SendLine || old(state).phase is SendHeaders) ==> (final(w).out().len() > old(w).out().len() <==> old(w).out().len() + next_line(request, old(state).phase).len() <= old(w).cap())'),
       ('C02.complete_head_emits_nothing', '!(old(state).phase is SendLine || old(state).phase is SendHeaders) ==> !r && final(w).out() == old(w).out() && final(state).phase == old(state).phase'),
   ],
   after=[('let skipped = all.skip(*index);', '''let ghost i0 = *index as int; let ghost out0 = w.out();
            proof {
                let eff = request.eff();
                let n = eff.len() as int;
                assert(items_are(skipped.remaining(), eff.skip(i0))) by {
                    assert forall|j: int| 0 <= j < eff.skip(i0).len() implies
                        (#[trigger] skipped.remaining()[j]).0.view() == eff.skip(i0)[j].name && skipped.remaining()[j].1.view() == eff.skip(i0)[j].value by {
                        assert(skipped.remaining()[j] == all.remaining()[j + i0]);
                    }
                }
                assert forall|k: int| 0 <= k <= skipped.remaining().len() implies
                    #[trigger] item_lines(skipped.remaining(), 0, k, i0, n - 1) == header_lines(eff, i0, i0 + k) by {
                    lemma_item_lines_are_header_lines(skipped.remaining(), eff, i0, k);
                }
                assert forall|k: int| 0 <= k < skipped.remaining().len() implies item_hdr(#[trigger] skipped.remaining()[k]) == eff[i0 + k] by {
                    assert(eff.skip(i0)[k] == eff[i0 + k]);
                }
            }'''),
          ('do_write_headers(skipped, index, header_count - 1, w);', '''proof {
                let k = *index - i0;
                let n = request.eff().len() as int;
                lemma_header_lines_split(request.eff(), i0, i0 + k, n);
                assert(w.out().subrange(out0.len() as int, w.out().len() as int) =~= header_lines(request.eff(), i0, i0 + k));
                if k >= 1 {
                    lemma_header_lines_split(request.eff(), i0, i0 + 1, i0 + k);
                    assert(header_lines(request.eff(), i0, i0 + 1) =~= header_line(request.eff()[i0], i0 + 1 == n)) by { reveal_with_fuel(header_lines, 2); }
                }
            }'''),
   ],
   before=[('let success = do_write_send_line(', 'let ghost out0 = w.out();'),
           ('if success {\n                state.phase = Phase::SendHeaders(0);', '''proof { if success { assert(w.out().subrange(out0.len() as int, w.out().len() as int) =~= request_line(request)); } else { assert(w.out().subrange(out0.len() as int, w.out().len() as int) =~= Seq::<u8>::empty()); } }''')],
   )

FN('try_write_prelude', props=['C02', 'C01', 'C16', 'C17'], ret='r',
   requires=[
       ('aux.try_write_prelude.wf', 'old(w).wf()'),
       ('aux.try_write_prelude.sending', 'old(state).phase is SendLine || old(state).phase is SendHeaders || old(state).phase is SendBody'),
       ('C02.quantifier_at_least_one_header', 'phase_ok(request, old(state).phase)'),
   ],
   ensures=[
       ('aux.try_write_prelude.frame', '''old(w).same_buffer(final(w)) && old(w).out().is_prefix_of(final(w).out()) && final(state).writer == old(state).writer && final(state).reader == old(state).reader
            && final(state).skip_method_body_check == old(state).skip_method_body_check && final(state).stop_on_chunk_boundary == old(state).stop_on_chunk_boundary'''),
       ('C02.whole_lines', 'head_step(request, old(state).phase, final(state).phase, final(w).out().subrange(old(w).out().len() as int, final(w).out().len() as int))'),
       ('aux.try_write_prelude.sending', 'final(state).phase is SendLine || final(state).phase is SendHeaders || final(state).phase is SendBody'),
       ('C02.maximal', '(final(state).phase is SendLine || final(state).phase is SendHeaders) ==> final(w).out().len() + next_line(request, final(state).phase).len() > final(w).cap()'),
       ('C02.overflow_iff_nothing_fits', '''({
            let prelude0 = old(state).phase is SendLine || old(state).phase is SendHeaders;
            let stuck = prelude0 && old(w).out().len() + next_line(request, old(state).phase).len() > old(w).cap();
            if stuck { r == Err::<(), Error>(Error::OutputOverflow) && final(w).out() == old(w).out() && final(state).phase == old(state).phase } else { r is Ok }
        })'''),
       ('C02.complete_head_emits_nothing', 'old(state).phase is SendBody ==> r is Ok && final(w).out() == old(w).out() && final(state).phase == old(state).phase'),
   ],
   loops={1: {'kw': 'loop',
              'before': 'let ghost p0 = state.phase; let ghost out0 = w.out(); let ghost mut rounds: nat = 0;',
              'invariant': [
                  ('aux.try_write_prelude.loop.frame', '''old(w).same_buffer(w) && w.wf() && out0 == old(w).out() && out0.is_prefix_of(w.out()) && at_start == out0.len() && p0 == old(state).phase
                        && state.writer == old(state).writer && state.reader == old(state).reader && state.skip_method_body_check == old(state).skip_method_body_check && state.stop_on_chunk_boundary == old(state).stop_on_chunk_boundary'''),
                  ('aux.try_write_prelude.loop.sending', '(p0 is SendLine || p0 is SendHeaders || p0 is SendBody) && (state.phase is SendLine || state.phase is SendHeaders || state.phase is SendBody)'),
                  ('aux.try_write_prelude.loop.step', 'head_step(request, p0, state.phase, w.out().subrange(out0.len() as int, w.out().len() as int))'),
                  ('aux.try_write_prelude.loop.rounds', 'rounds <= 1 && (rounds == 0 ==> state.phase == p0 && w.out() == out0) && (rounds == 1 ==> p0 is SendLine && state.phase == Phase::SendHeaders(0) && w.out().len() > out0.len() && out0.len() + next_line(request, p0).len() <= w.cap())'),
              ],
              'decreases': '1 - rounds'}},
   before=[('if try_write_prelude_part(request, state, w) {', 'let ghost pm = state.phase; let ghost outm = w.out();'),
           ('continue;', '''proof {
                rounds = rounds + 1;
                lemma_head_step_trans(request, p0, pm, state.phase, out0, outm, w.out());
            }'''),
           ('let written = w.len() - at_start;', 'proof { lemma_head_step_trans(request, p0, pm, state.phase, out0, outm, w.out()); }'),
   ],
   )

PROOF('lemma_head_step_trans', ['C02', 'C01'], '''
/// two consecutive steps of the head writer compose (what makes any buffer schedule emit the same head)
pub proof fn lemma_head_step_trans<B>(req: &AmendedRequest<B>, p0: Phase, p1: Phase, p2: Phase, o0: Seq<u8>, o1: Seq<u8>, o2: Seq<u8>)
    requires o0.is_prefix_of(o1), o1.is_prefix_of(o2),
        head_step(req, p0, p1, o1.subrange(o0.len() as int, o1.len() as int)),
        head_step(req, p1, p2, o2.subrange(o1.len() as int, o2.len() as int)),
    ensures head_step(req, p0, p2, o2.subrange(o0.len() as int, o2.len() as int)), o0.is_prefix_of(o2)
{
    assert(o2.subrange(o0.len() as int, o2.len() as int) =~= o1.subrange(o0.len() as int, o1.len() as int) + o2.subrange(o1.len() as int, o2.len() as int));
    assert(head_from(req, p0) =~= o2.subrange(o0.len() as int, o2.len() as int) + head_from(req, p2));
}
''')

# ------------------------------------------------------------------ Call: construction, analysis, conversions
RAW('''
use crate::http::{by_name, first_value, lower, valid_value};
use crate::client::amended::{spec_analyze, te_chunked, RequestInfo, key_bytes, val_bytes, axiom_key_val_bytes};
use crate::util::spec_compare_lowercase_ascii;
use crate::body::{reader_wf, Framing, framing, reader_framing};

/// facts about the string literals the analysis uses (Verus gives literals no byte-level meaning)
#[verifier::external_body]
pub proof fn axiom_literals()
    ensures
        lower(str_bytes("Host")) == lit("host") && crate::http::valid_name(lit("host")),
        spec_compare_lowercase_ascii(lit("chunked"), lit("chunked")),
        forall|i: int| 0 <= i < lit("chunked").len() ==> (32 <= #[trigger] lit("chunked")[i] < 127),
        lit("host") != lit("content-length") && lit("host") != lit("transfer-encoding") && lit("content-length") != lit("transfer-encoding"),
{}
// N9: Error::BadHeader(e.to_string()) for http's InvalidHeaderValue
#[verifier::external_body]
pub fn bad_header_value(e: crate::http::InvalidHeaderValue) -> (r: Error) ensures r is BadHeader { unimplemented!() }

/// the Host header the analysis appends (from the effective URI) when the request has none
pub open spec fn host_part(uri_host: Option<Seq<u8>>, info: RequestInfo) -> Seq<Hdr> {
    if !info.req_host_header && uri_host is Some { seq![Hdr { name: lit("host"), value: uri_host->Some_0 }] } else { Seq::<Hdr>::empty() }
}
/// the framing header that matches a writer mode
pub open spec fn is_framing_hdr(h: Hdr, mode: SenderMode) -> bool {
    match mode {
        SenderMode::Sized(n) => h.name == lit("content-length") && parse_dec_u64(h.value) == Some(n) && valid_value(h.value),
        _ => h.name == lit("transfer-encoding") && h.value == lit("chunked"),
    }
}
''')

IMPL('impl<B> Call<(), B>')
FN('without_body', props=['C09', 'C17'], ret='r',
   ensures=[('aux.Call.without_body', '''r is Ok && r->Ok_0.request.request.same_head(&request) && r->Ok_0.request.request.spec_body() == Some(request.spec_body())
            && r->Ok_0.request.uri is None && r->Ok_0.request.headers.view().len() == 0 && r->Ok_0.request.unset.view().len() == 0
            && !r->Ok_0.analyzed && r->Ok_0.state.phase == Phase::SendLine && r->Ok_0.state.reader is None
            && !r->Ok_0.state.skip_method_body_check && !r->Ok_0.state.stop_on_chunk_boundary && r->Ok_0.wf() && r->Ok_0.state.writer.mode is None && r->Ok_0.state.writer.ended''')])
FN('with_body', props=['C09', 'C17'], ret='r',
   ensures=[('aux.Call.with_body', '''r is Ok && r->Ok_0.request.request.same_head(&request) && r->Ok_0.request.request.spec_body() == Some(request.spec_body())
            && r->Ok_0.request.uri is None && r->Ok_0.request.headers.view().len() == 0 && r->Ok_0.request.unset.view().len() == 0
            && !r->Ok_0.analyzed && r->Ok_0.state.phase == Phase::SendLine && r->Ok_0.state.reader is None
            && !r->Ok_0.state.skip_method_body_check && !r->Ok_0.state.stop_on_chunk_boundary && r->Ok_0.wf() && r->Ok_0.state.writer.mode is Chunked && !r->Ok_0.state.writer.ended''')])
END()

IMPL('impl<State, B> Call<State, B>', raw='''
    /// representation invariant of every call
    pub open spec fn wf(&self) -> bool {
        &&& self.request.wf()
        &&& self.state.writer.wf()
        &&& (self.state.reader matches Some(r) ==> reader_wf(r))
        &&& self.request.headers.view().len() + (if self.analyzed { 0int } else { 2 }) <= crate::client::MAX_EXTRA_HEADERS
        &&& self.request.unset.view().len() <= 4
    }
    /// C02's quantifier: the request can name its host (absolute URI, or an explicit Host header)
    pub open spec fn has_host_source(&self) -> bool {
        self.request.eff_uri().spec_host() is Some || first_value(self.request.eff(), lit("host")) is Some
    }
    /// everything except analysis results is unchanged
    pub open spec fn same_but_analysis(&self, post: &Self) -> bool {
        &&& self.request.same_but_added(&post.request)
        &&& post.state.phase == self.state.phase && post.state.reader == self.state.reader
        &&& post.state.skip_method_body_check == self.state.skip_method_body_check && post.state.stop_on_chunk_boundary == self.state.stop_on_chunk_boundary
    }
    /// C02 / C17: the effect of request analysis
    pub open spec fn post_analyze(pre: &Self, post: &Self, r: Result<(), Error>) -> bool {
        if pre.analyzed { r is Ok && *post == *pre } else {
            match spec_analyze(pre.request.request.spec_method(), pre.request.request.spec_version(), pre.request.eff(), pre.state.writer, pre.state.skip_method_body_check) {
                Err(_) => r is Err && !(r->Err_0 == Error::OutputOverflow) && *post == *pre,
                Ok(info) => {
                    let uri_host = pre.request.eff_uri().spec_host();
                    if !info.req_host_header && uri_host is Some && !valid_value(uri_host->Some_0) { r is Err && r->Err_0 is BadHeader && *post == *pre }
                    else {
                        &&& r is Ok && post.analyzed && pre.same_but_analysis(post) && post.state.writer == info.body_mode
                        &&& if !info.req_body_header && !(info.body_mode.mode is None) {
                                // the framing header the body writer will actually use is appended after it
                                exists|fh: Hdr| #[trigger] is_framing_hdr(fh, info.body_mode.mode) && post.request.added() == pre.request.added() + host_part(uri_host, info) + seq![fh]
                            } else { post.request.added() == pre.request.added() + host_part(uri_host, info) }
                    }
                }
            }
        }
    }
''')
FN('new', props=['C09'], ret='r',
   ensures=[('aux.Call.new', '''r is Ok && r->Ok_0.request.request.same_head(&request) && r->Ok_0.request.request.spec_body() == Some(request.spec_body())
            && r->Ok_0.request.uri is None && r->Ok_0.request.headers.view().len() == 0 && r->Ok_0.request.unset.view().len() == 0
            && !r->Ok_0.analyzed && r->Ok_0.state.phase == Phase::SendLine && r->Ok_0.state.writer == default_body_mode && r->Ok_0.state.reader is None
            && !r->Ok_0.state.skip_method_body_check && !r->Ok_0.state.stop_on_chunk_boundary''')])
FN('analyze_request', props=['C02', 'C17', 'C09'], ret='r',
   requires=[('aux.analyze_request.wf', 'old(self).wf()')],
   ensures=[
       ('C02/C17.analysis_exact_and_not_cached_on_error', 'Self::post_analyze(old(self), final(self), r)'),
       ('aux.analyze_request.wf', 'final(self).wf()'),
   ],
   head='broadcast use axiom_key_val_bytes; proof { axiom_literals(); }',
   rewrites=[
       ('N5', '.map_err(|e| Error::BadHeader(e.to_string()))?', '.map_err(|e: crate::http::InvalidHeaderValue| -> (e2: Error) ensures e2 is BadHeader { bad_header_value(e) })?'),
   ],
   before=[('self.state.writer = info.body_mode;', '''proof {
            let uri_host = old(self).request.eff_uri().spec_host();
            if !info.req_body_header && !(info.body_mode.mode is None) {
                let fh = self.request.added().last();
                assert(is_framing_hdr(fh, info.body_mode.mode));
                assert(self.request.added() =~= old(self).request.added() + host_part(uri_host, info) + seq![fh]);
            } else {
                assert(self.request.added() =~= old(self).request.added() + host_part(uri_host, info));
            }
        }''')],
   )
FN('do_into_receive', props=['C09'], ret='r',
   ensures=[('C09.into_receive_iff_body_finished', '''if self.state.writer.ended {
                r is Ok && r->Ok_0.request == self.request && r->Ok_0.analyzed == self.analyzed && r->Ok_0.state.phase == Phase::RecvResponse
                && r->Ok_0.state.writer == self.state.writer && r->Ok_0.state.reader == self.state.reader
                && r->Ok_0.state.skip_method_body_check == self.state.skip_method_body_check && r->Ok_0.state.stop_on_chunk_boundary == self.state.stop_on_chunk_boundary
            } else { r is Err }''')])
FN('amended', props=['C09'], ret='r', ensures=[('aux.Call.amended', '*r == self.request')])
FN('amended_mut', props=['C09', 'C13', 'C16'], ret='r',
   ensures=[('aux.Call.amended_mut', '*r == old(self).request && *final(r) == final(self).request && final(self).analyzed == old(self).analyzed && final(self).state == old(self).state')])
FN('body_mode', props=['C06'], ret='r',
   ensures=[('C06.body_mode', '''match self.state.reader { Some(BodyReader::NoBody) => r == BodyMode::NoBody, Some(BodyReader::LengthDelimited(v)) => r == BodyMode::LengthDelimited(v),
            Some(BodyReader::Chunked(_)) => r == BodyMode::Chunked, Some(BodyReader::CloseDelimited) => r == BodyMode::CloseDelimited, None => r == BodyMode::Chunked }''')],
   rewrites=[('N5', '.map(|r| r.body_mode())', '.map(|r: BodyReader| -> (m: BodyMode) ensures m == (match r { BodyReader::NoBody => BodyMode::NoBody, BodyReader::LengthDelimited(v) => BodyMode::LengthDelimited(v), BodyReader::Chunked(_) => BodyMode::Chunked, BodyReader::CloseDelimited => BodyMode::CloseDelimited }) { r.body_mode() })')])
END()

IMPL('impl BodyState')
FN('need_response_body', props=['C06', 'C09'], ret='r',
   ensures=[('C06/C09.need_body', 'r == !(self.reader == Some(BodyReader::NoBody) || self.reader == Some(BodyReader::LengthDelimited(0)))')])
END()

# ------------------------------------------------------------------ Call<WithoutBody>
RAW('''
/// C02 / C17: what a head-writing call returns, in terms of the request AFTER analysis.
/// `emitted` = the first n bytes of the caller's output buffer.
pub open spec fn post_write_head<S, B>(pre: &Call<S, B>, post: &Call<S, B>, emitted: Seq<u8>, r_ok: bool, err: Option<Error>) -> bool {
    if r_ok || err == Some(Error::OutputOverflow) {
        &&& post.analyzed && (pre.analyzed ==> post.request == pre.request)
        &&& post.state.reader == pre.state.reader && post.state.skip_method_body_check == pre.state.skip_method_body_check && post.state.stop_on_chunk_boundary == pre.state.stop_on_chunk_boundary
        &&& (pre.analyzed ==> post.state.writer == pre.state.writer)
        &&& (post.state.phase is SendLine || post.state.phase is SendHeaders || post.state.phase is SendBody)
        // Ok: the next whole lines were emitted.  OutputOverflow: nothing was emitted, the call can be repeated
        &&& (if r_ok { head_step(&post.request, pre.state.phase, post.state.phase, emitted) } else { post.state.phase == pre.state.phase })
    } else {
        // rejected by the analysis: nothing happened at all
        !pre.analyzed && *post == *pre
    }
}
''')
IMPL('impl<B> Call<WithoutBody, B>')
FN('into_send_body', props=['C09'], ret='r', mutself=True,
   requires=[('aux.into_send_body.not_analyzed', '!self.analyzed')],
   ensures=[('C09.send_body_despite_method_defaults_chunked', '''r.request == self.request && !r.analyzed && r.state.phase == self.state.phase && r.state.reader == self.state.reader
            && r.state.skip_method_body_check && r.state.stop_on_chunk_boundary == self.state.stop_on_chunk_boundary && r.state.writer.mode is Chunked && !r.state.writer.ended''')])
FN('write', props=['C02', 'C17', 'C01', 'C16'], ret='r',
   requires=[
       ('aux.Call.write.wf', 'old(self).wf()'),
       ('aux.Call.write.sending', 'old(self).state.phase is SendLine || old(self).state.phase is SendHeaders || old(self).state.phase is SendBody'),
       ('C02.quantifier_request_names_its_host', 'old(self).has_host_source()'),
       ('aux.Call.write.phase_ok', 'if old(self).analyzed { phase_ok(&old(self).request, old(self).state.phase) } else { old(self).state.phase is SendLine }'),
   ],
   ensures=[
       ('aux.Call.write.frame', 'final(output).len() == old(output).len() && final(self).wf() && (final(self).analyzed ==> phase_ok(&final(self).request, final(self).state.phase)) && final(self).has_host_source()'),
       ('C02.head_bytes', '''match r {
            Ok(n) => n <= old(output).len() && post_write_head(old(self), final(self), final(output)@.subrange(0, n as int), true, None),
            Err(e) => post_write_head(old(self), final(self), Seq::<u8>::empty(), false, Some(e)),
        }'''),
       ('C17.rejected_before_any_byte', 'r is Err && !(r->Err_0 == Error::OutputOverflow) ==> *final(self) == *old(self) && final(output)@ == old(output)@'),
       ('C02.maximal', 'r is Ok && (final(self).state.phase is SendLine || final(self).state.phase is SendHeaders) ==> r->Ok_0 + next_line(&final(self).request, final(self).state.phase).len() > old(output).len()'),
       ('C02.complete_head_emits_nothing', 'old(self).analyzed && old(self).state.phase is SendBody ==> r == Ok::<usize, Error>(0usize) && *final(self) == *old(self)'),
       ('C17.bodyless_call_stays_bodyless', '''old(self).state.writer.mode is None && old(self).state.writer.ended && !old(self).state.skip_method_body_check && !crate::ext::method_needs_body(old(self).request.request.spec_method())
            ==> final(self).state.writer.mode is None && final(self).state.writer.ended && !final(self).state.skip_method_body_check && final(self).request.request == old(self).request.request'''),
   ],
   after=[('self.analyze_request()?;', 'proof { lemma_analysis_gives_a_header(old(self), self); }'),
          ('let output_used = w.len();', '''proof {
            assert(w.out().subrange(0, w.out().len() as int) =~= w.out());
            assert(w.fin().subrange(0, output_used as int) =~= w.out());
        }''')],
   )
FN('is_finished', props=['C09', 'C02'], ret='r', ensures=[('aux.WithoutBody.is_finished', 'r == !(self.state.phase is SendLine || self.state.phase is SendHeaders)')])
FN('into_receive', props=['C09'], ret='r',
   ensures=[('C09.into_receive_iff_body_finished', '''if self.state.writer.ended {
                r is Ok && r->Ok_0.request == self.request && r->Ok_0.analyzed == self.analyzed && r->Ok_0.state.phase == Phase::RecvResponse
                && r->Ok_0.state.writer == self.state.writer && r->Ok_0.state.reader == self.state.reader
                && r->Ok_0.state.skip_method_body_check == self.state.skip_method_body_check && r->Ok_0.state.stop_on_chunk_boundary == self.state.stop_on_chunk_boundary
            } else { r is Err }''')])
END()

PROOF('lemma_analysis_gives_a_header', ['C02', 'C17'], '''
/// after a successful analysis of a request that can name its host there is at least one effective header (Host)
pub proof fn lemma_analysis_gives_a_header<S, B>(pre: &Call<S, B>, post: &Call<S, B>)
    requires Call::<S, B>::post_analyze(pre, post, Ok(())), pre.has_host_source(), pre.analyzed ==> pre.request.eff().len() >= 1
    ensures post.request.eff().len() >= 1, post.has_host_source(),
        pre.analyzed ==> post.request == pre.request,
{
    axiom_literals();
    if !pre.analyzed {
        let info = spec_analyze(pre.request.request.spec_method(), pre.request.request.spec_version(), pre.request.eff(), pre.state.writer, pre.state.skip_method_body_check)->Ok_0;
        let uri_host = pre.request.eff_uri().spec_host();
        assert(post.request.kept() == pre.request.kept());
        if info.req_host_header {
            crate::http::lemma_first_value_some_len(pre.request.eff(), lit("host"));
            assert(post.request.eff().len() >= pre.request.eff().len());
            crate::http::lemma_first_value_prefix(pre.request.added(), pre.request.kept(), post.request.added(), lit("host"));
        } else {
            assert(uri_host is Some) by { crate::http::lemma_first_value_some_len(pre.request.eff(), lit("host")); }
            assert(post.request.added().len() >= pre.request.added().len() + 1);
        }
    } else {
        crate::http::lemma_first_value_some_len(pre.request.eff(), lit("host"));
    }
}
''')

# ------------------------------------------------------------------ Call<WithBody>
RAW('''
/// C03 / C04: the body branch of Call<WithBody>::write
#[verifier::prophetic]
pub open spec fn post_write_body<B>(pre: &Call<WithBody, B>, post: &Call<WithBody, B>, input: Seq<u8>, out_len: nat, emitted_of: spec_fn(nat) -> Seq<u8>, r: Result<(usize, usize), Error>) -> bool {
    let wr = pre.state.writer;
    if input.len() > 0 && wr.ended {
        // C03/C04: refused after the body is finished
        r is Err && *post == *pre
    } else if wr.mode is Sized && input.len() > wr.mode->Sized_0 {
        // C04: refused when more than the remaining bytes are offered
        r is Err && *post == *pre
    } else {
        &&& r is Ok && post.request == pre.request && post.analyzed == pre.analyzed && post.state.phase == pre.state.phase && post.state.reader == pre.state.reader
        &&& post.state.skip_method_body_check == pre.state.skip_method_body_check && post.state.stop_on_chunk_boundary == pre.state.stop_on_chunk_boundary
        &&& r->Ok_0.0 <= input.len() && r->Ok_0.1 <= out_len
        &&& (wr.mode is Sized ==> sized_step(wr, post.state.writer, input, out_len, emitted_of(r->Ok_0.1 as nat), r->Ok_0.0 as nat, r->Ok_0.1 as nat))
        &&& (wr.mode is Chunked ==> chunked_step(wr, post.state.writer, input, out_len, emitted_of(r->Ok_0.1 as nat), r->Ok_0.0 as nat, r->Ok_0.1 as nat))
    }
}
/// C04: min(input, space, remaining) bytes copied verbatim, counted as consumed and produced; exact countdown
pub open spec fn sized_step(w0: BodyWriter, w1: BodyWriter, input: Seq<u8>, space: nat, emitted: Seq<u8>, consumed: nat, produced: nat) -> bool {
    let left = w0.mode->Sized_0;
    let n = min3(input.len() as int, space as int, left as int);
    &&& consumed == n && produced == n && emitted == input.subrange(0, n)
    &&& w1.mode == SenderMode::Sized((left - n) as u64) && w1.ended == (w0.ended || left - n == 0)
}
/// C03: data writes emit complete non-empty chunks of exactly the consumed bytes; the terminator only on an empty write, once
pub open spec fn chunked_step(w0: BodyWriter, w1: BodyWriter, input: Seq<u8>, space: nat, emitted: Seq<u8>, consumed: nat, produced: nat) -> bool {
    &&& w1.mode is Chunked && emitted.len() == produced
    &&& if input.len() > 0 {
            w1.ended == w0.ended && consumed == crate::body::cc(input.len(), space) && crate::body::is_chunking(emitted, input, consumed)
        } else {
            consumed == 0 && (if w0.ended { produced == 0 && w1.ended } else if space >= 5 { emitted =~= crate::body::term_bytes() && w1.ended } else { produced == 0 && !w1.ended })
        }
}
''')
IMPL('impl<B> Call<WithBody, B>')
FN('write', props=['C02', 'C03', 'C04', 'C17', 'C18', 'C19', 'C01', 'C16'], ret='r',
   requires=[
       ('aux.Call.write.wf', 'old(self).wf()'),
       ('aux.Call.write.sending', 'old(self).state.phase is SendLine || old(self).state.phase is SendHeaders || old(self).state.phase is SendBody'),
       ('C02.quantifier_request_names_its_host', 'old(self).has_host_source()'),
       ('aux.Call.write.phase_ok', 'if old(self).analyzed { phase_ok(&old(self).request, old(self).state.phase) } else { old(self).state.phase is SendLine }'),
       ('aux.Call.write.body_has_mode', '!(old(self).state.writer.mode is None)'),
   ],
   ensures=[
       ('aux.Call.write.frame', '''final(output).len() == old(output).len() && final(self).wf() && (final(self).analyzed ==> phase_ok(&final(self).request, final(self).state.phase)) && final(self).has_host_source()
            && (final(self).analyzed ==> !(final(self).state.writer.mode is None))'''),
       ('C02.head_bytes', '''(!old(self).analyzed || old(self).state.phase is SendLine || old(self).state.phase is SendHeaders) ==> match r {
            Ok(p) => p.0 == 0 && p.1 <= old(output).len() && post_write_head(old(self), final(self), final(output)@.subrange(0, p.1 as int), true, None),
            Err(e) => post_write_head(old(self), final(self), Seq::<u8>::empty(), false, Some(e)),
        }'''),
       ('C17.rejected_before_any_byte', '(!old(self).analyzed) && r is Err && !(r->Err_0 == Error::OutputOverflow) ==> *final(self) == *old(self) && final(output)@ == old(output)@'),
       ('C02.maximal', '(!old(self).analyzed || old(self).state.phase is SendLine || old(self).state.phase is SendHeaders) && r is Ok && (final(self).state.phase is SendLine || final(self).state.phase is SendHeaders) ==> r->Ok_0.1 + next_line(&final(self).request, final(self).state.phase).len() > old(output).len()'),
       ('aux.WithBody.write.request_kept', 'final(self).request.request == old(self).request.request && final(self).state.skip_method_body_check == old(self).state.skip_method_body_check'),
       ('C03/C04/C18/C19.body_bytes', '''old(self).analyzed && old(self).state.phase is SendBody ==>
            post_write_body(old(self), final(self), input@, old(output).len() as nat, |n: nat| final(output)@.subrange(0, n as int), r)'''),
   ],
   head='proof { axiom_slice_len(input); }',
   after=[('self.analyze_request()?;', '''proof {
            lemma_analysis_gives_a_header(old(self), self);
            lemma_analysis_gives_body_mode(old(self), self);
        }'''),
          ('let output_used = w.len();', '''proof {
            assert(w.out().subrange(0, w.out().len() as int) =~= w.out());
            assert(w.fin().subrange(0, output_used as int) =~= w.out());
        }''')],
   )
FN('consume_direct_write', props=['C04'], ret='r',
   requires=[('aux.consume_direct_write.wf', 'old(self).wf()')],
   ensures=[('C04.direct_write_accounting', '''match old(self).state.writer.mode {
            SenderMode::Sized(left) => if amount as u64 > left { r is Err && *final(self) == *old(self) }
                else { r is Ok && final(self).state.writer.mode == SenderMode::Sized((left - amount) as u64) && final(self).state.writer.ended == (old(self).state.writer.ended || left == amount as u64)
                       && final(self).request == old(self).request && final(self).analyzed == old(self).analyzed && final(self).state.phase == old(self).state.phase && final(self).state.reader == old(self).state.reader && final(self).wf() },
            _ => r is Err && *final(self) == *old(self) }''')])
FN('is_prelude', props=['C02', 'C09'], ret='r', ensures=[('aux.WithBody.is_prelude', 'r == (self.state.phase is SendLine || self.state.phase is SendHeaders)')])
FN('is_body', props=['C02', 'C09'], ret='r', ensures=[('aux.WithBody.is_body', 'r == (self.state.phase is SendBody)')])
FN('is_chunked', props=['C03', 'C18'], ret='r', ensures=[('aux.WithBody.is_chunked', 'r == (self.state.writer.mode is Chunked)')])
FN('is_finished', props=['C03', 'C04', 'C09'], ret='r', ensures=[('C03/C04/C09.finished_flag', 'r == self.state.writer.ended')])
FN('into_receive', props=['C09'], ret='r',
   ensures=[('C09.into_receive_iff_body_finished', '''if self.state.writer.ended {
                r is Ok && r->Ok_0.request == self.request && r->Ok_0.analyzed == self.analyzed && r->Ok_0.state.phase == Phase::RecvResponse
                && r->Ok_0.state.writer == self.state.writer && r->Ok_0.state.reader == self.state.reader
                && r->Ok_0.state.skip_method_body_check == self.state.skip_method_body_check && r->Ok_0.state.stop_on_chunk_boundary == self.state.stop_on_chunk_boundary
            } else { r is Err }''')])
FN('into_receive_skip_body', props=['C09', 'C11'], ret='r',
   ensures=[('C11.refused_body_is_skipped', '''r.request == self.request && r.analyzed == self.analyzed && r.state.phase == Phase::RecvResponse
                && r.state.writer == self.state.writer && r.state.reader == self.state.reader
                && r.state.skip_method_body_check == self.state.skip_method_body_check && r.state.stop_on_chunk_boundary == self.state.stop_on_chunk_boundary''')])
END()

PROOF('lemma_analysis_gives_body_mode', ['C02', 'C09', 'C17'], '''
/// a call that starts with a body writer (with_body constructor / send_body_despite_method) still has one after analysis
pub proof fn lemma_analysis_gives_body_mode<S, B>(pre: &Call<S, B>, post: &Call<S, B>)
    requires Call::<S, B>::post_analyze(pre, post, Ok(())), !pre.analyzed ==> !(pre.state.writer.mode is None), pre.analyzed ==> !(pre.state.writer.mode is None)
    ensures !(post.state.writer.mode is None)
{}
''')

# ------------------------------------------------------------------ Call<RecvResponse>
RAW('''
use crate::httparse::{Outcome, Parsed, PField, parse_response};
use crate::parser::{build_fields, nonempty_prefix, response_is, spec_try_parse_response, spec_try_parse_partial};
use crate::http::{has_name, hdr_multiset_order};
use crate::client::amended::is_text;

/// value of the first field of that name, if it is visible ASCII (`HeaderValue::to_str`)
pub open spec fn text_first(e: Seq<Hdr>, name: Seq<u8>) -> Option<Seq<u8>> {
    match first_value(e, name) { Some(v) => if is_text(v) { Some(v) } else { None }, None => None }
}
/// C06: the body framing of a response, decided from ITS OWN status line and fields
pub open spec fn response_framing(m: Method, resp: &Response<()>) -> Option<Framing> {
    let e = resp.spec_headers().entries();
    framing(m, resp.spec_status().0, resp.spec_version() == Version::HTTP_10, text_first(e, lit("content-length")), text_first(e, lit("transfer-encoding")))
}
/// C05 (F6): the deliberate work-around: a 3xx head cut anywhere after a complete Location line is accepted as complete
pub open spec fn partial_redirect_hack(p: Parsed) -> bool {
    &&& p.version is Some && p.version->Some_0 <= 1 && p.code is Some && 300 <= p.code->Some_0 <= 399
    &&& build_fields(p.fields, nonempty_prefix(p.fields, p.fields.len() as int)) matches Ok(hs) && by_name(hs, lit("location")).len() > 0
}
/// C05: postconditions of Call::try_response as predicates (hypotheses of head_lemmas::lemma_c05_*)
pub open spec fn c05_complete(m: Method, input: Seq<u8>, r: Result<Option<(usize, Response<()>)>, Error>) -> bool {
    parse_response(input, MAX_RESPONSE_HEADERS as nat) matches Outcome::Complete(n, p) ==> ({
        let valid = p.version is Some && p.version->Some_0 <= 1 && p.code is Some && 100 <= p.code->Some_0 <= 999 && build_fields(p.fields, p.fields.len() as int) is Ok;
        let hs = build_fields(p.fields, p.fields.len() as int)->Ok_0;
        &&& (r is Ok ==> valid && r->Ok_0 is Some && r->Ok_0->Some_0.0 == n && response_is(r->Ok_0->Some_0.1, p, hs))
        &&& (valid && p.code->Some_0 == 100 ==> (r is Ok <==> hs.len() == 0))
        &&& (valid && p.code->Some_0 != 100 ==> (r is Ok <==> framing(m, p.code->Some_0, p.version->Some_0 == 0,
                    text_first(hs, lit("content-length")), text_first(hs, lit("transfer-encoding"))) is Some))
    })
}
pub open spec fn c05_error(input: Seq<u8>, r: Result<Option<(usize, Response<()>)>, Error>) -> bool {
    parse_response(input, MAX_RESPONSE_HEADERS as nat) is Err ==> r is Err
}
pub open spec fn c05_prefix(input: Seq<u8>, r: Result<Option<(usize, Response<()>)>, Error>) -> bool {
    parse_response(input, MAX_RESPONSE_HEADERS as nat) matches Outcome::Partial(p) && !partial_redirect_hack(p) && (p.code matches Some(c) ==> c >= 100)
        && (forall|i: int| 0 <= i < p.fields.len() ==> (#[trigger] p.fields[i]).name.len() < 65536) ==> r == Ok::<Option<(usize, Response<()>)>, Error>(None)
}
/// the state of the call after try_response returned `resp`
pub open spec fn post_response<B>(pre: &Call<RecvResponse, B>, post: &Call<RecvResponse, B>, resp: &Response<()>) -> bool {
    &&& post.request == pre.request && post.analyzed == pre.analyzed && post.state.phase == pre.state.phase && post.state.writer == pre.state.writer
    &&& post.state.skip_method_body_check == pre.state.skip_method_body_check && post.state.stop_on_chunk_boundary == pre.state.stop_on_chunk_boundary
    &&& if resp.spec_status().0 == 100 {
            // C11: an interim 100 is handed through, it does not decide the body framing
            post.state.reader == pre.state.reader && resp.spec_headers().entries().len() == 0
        } else {
            // C06: the reader is set according to the message-body-length rules
            response_framing(pre.request.request.spec_method(), resp) matches Some(f) && post.state.reader is Some && reader_framing(post.state.reader->Some_0) == f
                && (post.state.reader->Some_0 is Chunked ==> post.state.reader->Some_0->Chunked_0 == crate::chunk::Dechunker::Size)
        }
}
#[verifier::external_body]
pub proof fn axiom_literals2()
    ensures
        lower(lit("content-length")) == lit("content-length"), lower(lit("transfer-encoding")) == lit("transfer-encoding"),
        lower(lit("location")) == lit("location"), lower(lit("connection")) == lit("connection"),
        lit("connection") != lit("location") && lit("connection") != lit("content-length") && lit("connection") != lit("transfer-encoding"),
{}
''')
IMPL('impl<B> Call<RecvResponse, B>')
FN('try_response', props=['C05', 'C06', 'C11', 'C12', 'C01'], ret='r',
   requires=[('aux.try_response.wf', 'old(self).wf()')],
   ensures=[
       ('aux.try_response.wf', 'final(self).wf()'),
       ('C12.no_state_change_on_error_or_need_more', '(r is Err || r == Ok::<Option<(usize, Response<()>)>, Error>(None)) ==> *final(self) == *old(self)'),
       ('C12.counts', 'r is Ok && r->Ok_0 is Some ==> r->Ok_0->Some_0.0 <= input.len()'),
       ('C05.complete_head_exact', 'c05_complete(old(self).request.request.spec_method(), input@, r)'),
       ('C05.parser_error_is_an_error', 'c05_error(input@, r)'),
       ('C06.reader_set_by_the_rules', 'r is Ok && r->Ok_0 is Some ==> post_response(old(self), final(self), &r->Ok_0->Some_0.1)'),
       ('C05.need_more_data.not_redirect_with_location', 'parse_response(input@, MAX_RESPONSE_HEADERS as nat) matches Outcome::Partial(p) && !partial_redirect_hack(p) ==> (r is Err || r == Ok::<Option<(usize, Response<()>)>, Error>(None))'),
       ('C05.need_more_data.well_formed_prefix_never_fails', 'c05_prefix(input@, r)'),
       ('C05.need_more_data.redirect_with_location', 'parse_response(input@, MAX_RESPONSE_HEADERS as nat) matches Outcome::Partial(p) && partial_redirect_hack(p) ==> r == Ok::<Option<(usize, Response<()>)>, Error>(None)'),
       ('aux.try_response.partial_redirect_is_marked_close', '''parse_response(input@, MAX_RESPONSE_HEADERS as nat) matches Outcome::Partial(p) && partial_redirect_hack(p) && r is Ok ==>
            r->Ok_0 is Some && r->Ok_0->Some_0.0 == input.len() && crate::http::has_field(r->Ok_0->Some_0.1.spec_headers().entries(), lit("connection"), lit("close"))'''),
   ],
   head='broadcast use crate::httparse::axiom_outcome_ok; proof { axiom_literals(); axiom_literals2(); axiom_slice_len(input); }',
   rewrites=[
       ('N5', '''let header_lookup = |name: &str| {
            if let Some(header) = response.headers().get(name) {
                return header.to_str().ok();
            }
            None
        };''', '''let header_lookup = |name: &str| -> (o: Option<&str>)
            ensures crate::body::opt_bytes(o) == text_first(response.spec_headers().entries(), lower(str_bytes(name)))
        {
            if let Some(header) = response.headers().get(name) {
                return header.to_str().ok();
            }
            None
        };'''),
   ],
   before=[('if let Some(mut r) = try_parse_partial_response', '''proof {
                    let o = parse_response(input@, MAX_RESPONSE_HEADERS as nat);
                    if o is Partial && (forall|i: int| 0 <= i < o->Partial_0.fields.len() ==> (#[trigger] o->Partial_0.fields[i]).name.len() < 65536) {
                        crate::parser::lemma_nonempty_prefix_le(o->Partial_0.fields, o->Partial_0.fields.len() as int);
                        crate::parser::lemma_build_fields_ok(o->Partial_0.fields, nonempty_prefix(o->Partial_0.fields, o->Partial_0.fields.len() as int));
                    }
                }'''),
           ('let recv_body_mode =', '''proof {
            let o = parse_response(input@, MAX_RESPONSE_HEADERS as nat);
            if o is Complete {
                let hs = build_fields(o->Complete_1.fields, o->Complete_1.fields.len() as int)->Ok_0;
                let en = response.spec_headers().entries();
                crate::http::lemma_first_value_by_name(en, lit("content-length")); crate::http::lemma_first_value_by_name(hs, lit("content-length"));
                crate::http::lemma_first_value_by_name(en, lit("transfer-encoding")); crate::http::lemma_first_value_by_name(hs, lit("transfer-encoding"));
            }
            let e = response.spec_headers().entries();
            let h0 = |n: Seq<u8>| text_first(e, lower(n));
            assert(crate::body::lookup_is(&header_lookup, h0));
        }''')],
   after=[
       ('r.status().is_redirection() && r.headers().contains_key("location");', '''proof {
                        let p = parse_response(input@, MAX_RESPONSE_HEADERS as nat)->Partial_0;
                        let hs = build_fields(p.fields, nonempty_prefix(p.fields, p.fields.len() as int))->Ok_0;
                        crate::http::lemma_has_name_by_name(r.spec_headers().entries(), lit("location"));
                    }'''),
   ],
   )
FN('is_finished', props=['C09', 'C05'], ret='r', ensures=[('aux.RecvResponse.is_finished', 'r == (self.state.reader is Some)')])
FN('into_body', props=['C06', 'C09'], ret='r',
   ensures=[('C06/C09.into_body', '''match self.state.reader {
            None => r is Err,
            Some(BodyReader::NoBody) => r is Ok && r->Ok_0 is None,
            Some(rd) => r is Ok && r->Ok_0 is Some && r->Ok_0->Some_0.state.reader == Some(rd) && r->Ok_0->Some_0.state.phase == Phase::RecvBody && r->Ok_0->Some_0.request == self.request }''')])
FN('need_response_body', props=['C06', 'C09'], ret='r',
   ensures=[('C06/C09.need_body', 'r == !(self.state.reader == Some(BodyReader::NoBody) || self.state.reader == Some(BodyReader::LengthDelimited(0)))')])
FN('do_into_body', props=['C09'], ret='r',
   ensures=[('aux.do_into_body', '''r.request == self.request && r.analyzed == self.analyzed && r.state.phase == Phase::RecvBody && r.state.writer == self.state.writer && r.state.reader == self.state.reader
            && r.state.skip_method_body_check == self.state.skip_method_body_check && r.state.stop_on_chunk_boundary == self.state.stop_on_chunk_boundary''')])
END()

# ------------------------------------------------------------------ Call<RecvBody>
IMPL('impl<B> Call<RecvBody, B>')
FN('read', props=['C07', 'C08', 'C12', 'C01'], ret='r',
   requires=[('aux.RecvBody.read.wf', 'old(self).wf() && old(self).state.reader is Some')],
   ensures=[
       ('aux.RecvBody.read.frame', '''final(output).len() == old(output).len() && final(self).wf() && final(self).state.reader is Some
            && final(self).request == old(self).request && final(self).analyzed == old(self).analyzed && final(self).state.phase == old(self).state.phase && final(self).state.writer == old(self).state.writer
            && final(self).state.skip_method_body_check == old(self).state.skip_method_body_check && final(self).state.stop_on_chunk_boundary == old(self).state.stop_on_chunk_boundary'''),
       ('C12.counts', 'r is Ok ==> r->Ok_0.0 <= input.len() && r->Ok_0.1 <= old(output).len()'),
       ('C12.copy_in_order', 'r is Ok ==> crate::chunk::is_subseq(final(output)@.subrange(0, r->Ok_0.1 as int), input@.subrange(0, r->Ok_0.0 as int))'),
       ('C08.ended_body_reads_nothing', '''({ let rd = old(self).state.reader->Some_0;
            (rd is NoBody || (rd is LengthDelimited && rd->LengthDelimited_0 == 0) || (rd is Chunked && rd->Chunked_0 is Ended)) ==> r == Ok::<(usize, usize), Error>((0usize, 0usize)) && final(self).state.reader == old(self).state.reader })'''),
       ('C08.length_delimited', 'old(self).state.reader->Some_0 is LengthDelimited && old(self).state.reader->Some_0->LengthDelimited_0 > 0 ==> BodyReader::post_read_limit(old(self).state.reader->Some_0, final(self).state.reader->Some_0, input@, old(output)@, final(output)@, r)'),
       ('C08.close_delimited', 'old(self).state.reader->Some_0 is CloseDelimited ==> BodyReader::post_read_unlimit(old(self).state.reader->Some_0, final(self).state.reader->Some_0, input@, old(output)@, final(output)@, r)'),
       ('C07.chunked', 'old(self).state.reader->Some_0 is Chunked ==> BodyReader::post_read_chunked(old(self).state.reader->Some_0, final(self).state.reader->Some_0, input@, old(output).len() as int, final(output)@, old(self).state.stop_on_chunk_boundary, r)'),
   ],
   before=[('if rbm.is_ended() {', '''proof {
            crate::chunk::lemma_subseq_refl(input@.subrange(0, 0)); assert(output@.subrange(0, 0) =~= input@.subrange(0, 0));
            if *rbm is Chunked && rbm->Chunked_0 is Ended {
                crate::body::lemma_read_basic(rbm->Chunked_0, input@, output.len() as int, old(self).state.stop_on_chunk_boundary);
                let p = crate::body::spec_read(rbm->Chunked_0, input@, output.len() as int, old(self).state.stop_on_chunk_boundary)->Some_0;
                assert(output@.subrange(0, p.out.len() as int) =~= p.out);
            }
        }''')],
   )
FN('stop_on_chunk_boundary', props=['C07'],
   ensures=[('aux.stop_on_chunk_boundary', 'final(self).state.stop_on_chunk_boundary == enabled && final(self).request == old(self).request && final(self).analyzed == old(self).analyzed && final(self).state.phase == old(self).state.phase && final(self).state.writer == old(self).state.writer && final(self).state.reader == old(self).state.reader && final(self).state.skip_method_body_check == old(self).state.skip_method_body_check')])
FN('is_on_chunk_boundary', props=['C07'], ret='r',
   requires=[('C09.reader_present', 'self.state.reader is Some')],
   ensures=[('aux.RecvBody.is_on_chunk_boundary', 'self.state.reader->Some_0 is Chunked ==> r == (self.state.reader->Some_0->Chunked_0 is Size)')])
FN('is_ended', props=['C07', 'C08', 'C09'], ret='r',
   requires=[('C09.reader_present', 'self.state.reader is Some')],
   ensures=[('C07/C08/C09.complete_iff', '''r == match self.state.reader->Some_0 { BodyReader::NoBody => true, BodyReader::LengthDelimited(v) => v == 0,
            BodyReader::Chunked(d) => d is Ended, BodyReader::CloseDelimited => false }''')])
FN('is_close_delimited', props=['C08', 'C10'], ret='r',
   requires=[('C09.reader_present', 'self.state.reader is Some')],
   ensures=[('aux.is_close_delimited', 'r == (self.state.reader->Some_0 is CloseDelimited)')])
END()
