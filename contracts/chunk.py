# src/chunk.rs : the response de-chunker (C07, C12, C01)

MODULE('chunk', 'src/chunk.rs', uses='''
use crate::*;
use core::str;
use crate::util::{find_crlf, spec_find_crlf, first_cr, slice_take_position, lemma_first_cr};
use crate::error::Error;
''')

# The decoder's sanity limit on the length of a chunk-size line is a tuning constant of the code (`const SANITY_CHECK`
# inside read_size).  C07 does not fix its value, so the specification takes it FROM THE SOURCE: changing the limit
# changes which size lines the decoder accepts, not whether what it accepts is decoded exactly.
import re as _re
_m = _re.search(r'const\s+SANITY_CHECK\s*:\s*usize\s*=\s*(\d+)\s*;', open(REPO + '/src/chunk.rs', encoding='utf-8').read())
# (not found: read_size was restructured; it is then kept under contract only, with whatever limit the spec last knew)
SANITY_LOST = None if _m else 'const SANITY_CHECK: usize = <n>; not found in src/chunk.rs (the size-line limit is part of the specification)'
SANITY = int(_m.group(1)) if _m else 20
RAW("""
/// the value of `const SANITY_CHECK` in read_size (taken from the source on every run)
pub open spec fn sanity_limit() -> int { %d }
""" % SANITY)

RAW('''
/// index of the first `v` among the first n bytes of b
pub open spec fn first_of(b: Seq<u8>, v: u8, n: int) -> Option<int>
    decreases b.len()
{
    if b.len() == 0 || n <= 0 { None } else if b[0] == v { Some(0int) } else {
        match first_of(b.subrange(1, b.len() as int), v, n - 1) { Some(i) => Some(i + 1), None => None }
    }
}
/// the chunk-size part of a size line: everything before the first ';' (chunk extension)
pub open spec fn hex_part(line: Seq<u8>) -> Seq<u8> {
    match first_of(line, 59u8, line.len() as int) { Some(m) => line.subrange(0, m), None => line }
}
/// what a complete size line means (None = malformed)
pub enum SizeLine { NotAscii, NotANumber, Last, Data(usize) }
pub open spec fn size_line(line: Seq<u8>) -> SizeLine {
    let hp = hex_part(line);
    if !is_utf8(hp) { SizeLine::NotAscii } else {
        match parse_hex(trim_spec(hp)) { None => SizeLine::NotANumber, Some(n) => if n == 0 { SizeLine::Last } else { SizeLine::Data(n) } }
    }
}
/// a is a subsequence of b (C12: every produced byte is a copy of a consumed byte, in order)
pub open spec fn is_subseq(a: Seq<u8>, b: Seq<u8>) -> bool
    decreases b.len()
{
    if a.len() == 0 { true } else if b.len() == 0 { false }
    else if a.last() == b.last() && is_subseq(a.drop_last(), b.drop_last()) { true }
    else { is_subseq(a, b.drop_last()) }
}
pub open spec fn rank(d: Dechunker) -> int {
    match d { Dechunker::Ending => 2, Dechunker::Trailer => 1, Dechunker::Size => 3, Dechunker::CrLf => 3, Dechunker::Chunk(_) => 3, Dechunker::Ended => 0 }
}
/// states in which the decoder may rest between calls
pub open spec fn dechunker_wf(d: Dechunker) -> bool { !(d is Trailer) && (d is Chunk ==> d->Chunk_0 > 0) }

// ---------------------------------------------------------------- the decoder as a spec-level interpreter (C07 composition)
/// outcome of one state handler on the window `win` with `room` bytes of output space
pub enum StepOut { Stop, Error, Go { next: Dechunker, consumed: int, copied: Seq<u8>, more: bool } }
pub open spec fn spec_step(s: Dechunker, win: Seq<u8>, room: int) -> StepOut {
    match s {
        Dechunker::Size => match spec_find_crlf(win) {
            None => StepOut::Stop,
            Some(i) => if i > sanity_limit() { StepOut::Error } else { match size_line(win.subrange(0, i)) {
                SizeLine::NotAscii => StepOut::Error,
                SizeLine::NotANumber => StepOut::Error,
                SizeLine::Last => StepOut::Go { next: Dechunker::Ending, consumed: i + 2, copied: Seq::<u8>::empty(), more: true },
                SizeLine::Data(n) => StepOut::Go { next: Dechunker::Chunk(n), consumed: i + 2, copied: Seq::<u8>::empty(), more: true },
            } },
        },
        Dechunker::Chunk(l) => {
            let n = min3(win.len() as int, room, l as int);
            StepOut::Go { next: if n == l { Dechunker::CrLf } else { Dechunker::Chunk((l - n) as usize) }, consumed: n, copied: win.subrange(0, n), more: n > 0 }
        },
        Dechunker::CrLf => match spec_find_crlf(win) {
            None => StepOut::Stop,
            Some(i) => if i > 0 { StepOut::Error } else { StepOut::Go { next: Dechunker::Size, consumed: 2, copied: Seq::<u8>::empty(), more: false } },
        },
        Dechunker::Ending => match spec_find_crlf(win) {
            None => StepOut::Stop,
            Some(i) => if i == 0 { StepOut::Go { next: Dechunker::Ended, consumed: 2, copied: Seq::<u8>::empty(), more: true } }
                       else { StepOut::Go { next: Dechunker::Trailer, consumed: 0, copied: Seq::<u8>::empty(), more: true } },
        },
        Dechunker::Trailer => match spec_find_crlf(win) {
            None => StepOut::Stop,
            Some(i) => StepOut::Go { next: Dechunker::Ending, consumed: i + 2, copied: Seq::<u8>::empty(), more: true },
        },
        Dechunker::Ended => StepOut::Stop,
    }
}
/// result of one `parse_input`: final state, bytes consumed, bytes produced
pub struct ParseOut { pub state: Dechunker, pub i: int, pub out: Seq<u8> }
/// `parse_input` as a function of (state, window, room): handlers are run until one reports "no more"; None = error
#[verifier::opaque]
pub open spec fn spec_parse(s: Dechunker, win: Seq<u8>, room: int) -> Option<ParseOut>
    decreases win.len(), rank(s)
{
    match spec_step(s, win, room) {
        StepOut::Stop => Some(ParseOut { state: s, i: 0, out: Seq::<u8>::empty() }),
        StepOut::Error => None,
        StepOut::Go { next, consumed, copied, more } =>
            if !more { Some(ParseOut { state: next, i: consumed, out: copied }) }
            else if consumed < 0 || consumed > win.len() || copied.len() > room || (consumed == 0 && rank(next) >= rank(s)) { None }
            else { match spec_parse(next, win.subrange(consumed, win.len() as int), room - copied.len()) {
                None => None,
                Some(r) => Some(ParseOut { state: r.state, i: consumed + r.i, out: copied + r.out }),
            } },
    }
}
''')

PROOF('lemma_parse_unfold', ['C07'], '''
/// one unfolding of the interpreter (spec_parse is opaque to keep the solver's work small)
pub proof fn lemma_parse_unfold(s: Dechunker, win: Seq<u8>, room: int)
    ensures spec_parse(s, win, room) == (match spec_step(s, win, room) {
        StepOut::Stop => Some(ParseOut { state: s, i: 0, out: Seq::<u8>::empty() }),
        StepOut::Error => None,
        StepOut::Go { next, consumed, copied, more } =>
            if !more { Some(ParseOut { state: next, i: consumed, out: copied }) }
            else if consumed < 0 || consumed > win.len() || copied.len() > room || (consumed == 0 && rank(next) >= rank(s)) { None }
            else { match spec_parse(next, win.subrange(consumed, win.len() as int), room - copied.len()) {
                None => None,
                Some(r) => Some(ParseOut { state: r.state, i: consumed + r.i, out: copied + r.out }),
            } },
    })
{
    reveal(spec_parse);
}
''')
PROOF('lemma_parse_basic', ['C12', 'C07'], '''
/// C12 for ARBITRARY server bytes, derived from the interpreter: counts in range, every produced byte is a copy of a
/// consumed byte in order, and the decoder never rests in the transient Trailer state
pub proof fn lemma_parse_basic(s: Dechunker, win: Seq<u8>, room: int)
    requires room >= 0, dechunker_wf(s) || (s is Trailer && (spec_find_crlf(win) matches Some(i) && i > 0)),
    ensures spec_parse(s, win, room) matches Some(p) ==> 0 <= p.i <= win.len() && p.out.len() <= room && dechunker_wf(p.state)
            && is_subseq(p.out, win.subrange(0, p.i))
    decreases win.len(), rank(s)
{
    lemma_parse_unfold(s, win, room);
    lemma_first_cr(win);
    assert(is_subseq(Seq::<u8>::empty(), win.subrange(0, 0)));
    match spec_step(s, win, room) {
        StepOut::Stop => {}
        StepOut::Error => {}
        StepOut::Go { next, consumed, copied, more } => {
            lemma_subseq_refl(copied);
            if s is Chunk { assert(copied =~= win.subrange(0, consumed)); }
            else { lemma_subseq_extend_b(Seq::<u8>::empty(), Seq::<u8>::empty(), win.subrange(0, consumed)); assert(Seq::<u8>::empty() + win.subrange(0, consumed) =~= win.subrange(0, consumed)); }
            if more && !(consumed < 0 || consumed > win.len() || copied.len() > room || (consumed == 0 && rank(next) >= rank(s))) {
                let rest = win.subrange(consumed, win.len() as int);
                if next is Trailer { assert(rest =~= win); }
                lemma_parse_basic(next, rest, room - copied.len());
                match spec_parse(next, rest, room - copied.len()) {
                    Some(r) => {
                        assert(rest.subrange(0, r.i) =~= win.subrange(consumed, consumed + r.i));
                        lemma_subseq_concat(copied, win.subrange(0, consumed), r.out, rest.subrange(0, r.i));
                        assert(win.subrange(0, consumed) + rest.subrange(0, r.i) =~= win.subrange(0, consumed + r.i));
                    }
                    None => {}
                }
            }
        }
    }
}
''')
PROOF('lemma_subseq', ['C12', 'C07'], '''
pub proof fn lemma_subseq_extend_b(a: Seq<u8>, b: Seq<u8>, x: Seq<u8>)
    requires is_subseq(a, b)
    ensures is_subseq(a, b + x)
    decreases x.len()
{
    if x.len() == 0 {
        assert(b + x =~= b);
    } else {
        lemma_subseq_extend_b(a, b, x.drop_last());
        assert((b + x).drop_last() =~= b + x.drop_last());
        if a.len() > 0 {
            let bx = b + x;
            if a.last() == bx.last() && is_subseq(a.drop_last(), bx.drop_last()) {} else {}
        }
    }
}
pub proof fn lemma_subseq_extend_both(a: Seq<u8>, b: Seq<u8>, x: Seq<u8>)
    requires is_subseq(a, b)
    ensures is_subseq(a + x, b + x)
    decreases x.len()
{
    if x.len() == 0 {
        assert(a + x =~= a); assert(b + x =~= b);
    } else {
        lemma_subseq_extend_both(a, b, x.drop_last());
        assert((a + x).drop_last() =~= a + x.drop_last());
        assert((b + x).drop_last() =~= b + x.drop_last());
        assert((a + x).last() == (b + x).last());
    }
}
pub proof fn lemma_subseq_refl(a: Seq<u8>)
    ensures is_subseq(a, a)
    decreases a.len()
{
    if a.len() > 0 { lemma_subseq_refl(a.drop_last()); }
}
pub proof fn lemma_subseq_concat(a: Seq<u8>, b: Seq<u8>, x: Seq<u8>, y: Seq<u8>)
    requires is_subseq(a, b), is_subseq(x, y)
    ensures is_subseq(a + x, b + y)
    decreases y.len()
{
    if x.len() == 0 {
        assert(a + x =~= a);
        lemma_subseq_extend_b(a, b, y);
    } else if y.len() == 0 {
    } else {
        assert((b + y).drop_last() =~= b + y.drop_last());
        if x.last() == y.last() && is_subseq(x.drop_last(), y.drop_last()) {
            lemma_subseq_concat(a, b, x.drop_last(), y.drop_last());
            assert((a + x).drop_last() =~= a + x.drop_last());
            assert((a + x).last() == (b + y).last());
        } else {
            lemma_subseq_concat(a, b, x, y.drop_last());
            let ax = a + x; let by = b + y;
            if ax.last() == by.last() && is_subseq(ax.drop_last(), by.drop_last()) {} else {}
        }
    }
}
pub proof fn lemma_first_of(b: Seq<u8>, v: u8, n: int)
    ensures match first_of(b, v, n) {
        Some(i) => 0 <= i < b.len() && i < n && b[i] == v && forall|j: int| 0 <= j < i ==> b[j] != v,
        None => forall|j: int| 0 <= j < b.len() && j < n ==> b[j] != v,
    }
    decreases b.len()
{
    if b.len() == 0 || n <= 0 {
    } else if b[0] == v {
    } else {
        let t = b.subrange(1, b.len() as int);
        lemma_first_of(t, v, n - 1);
        match first_of(t, v, n - 1) {
            Some(i) => {
                assert(b[i + 1] == t[i]);
                assert forall|j: int| 0 <= j < i + 1 implies b[j] != v by { if j > 0 { assert(b[j] == t[j - 1]); } }
            }
            None => {
                assert forall|j: int| 0 <= j < b.len() && j < n implies b[j] != v by { if j > 0 { assert(b[j] == t[j - 1]); } }
            }
        }
    }
}
pub proof fn lemma_first_of_unique(b: Seq<u8>, v: u8, n: int, i: int)
    requires 0 <= i < b.len(), i < n, b[i] == v, forall|j: int| 0 <= j < i ==> b[j] != v
    ensures first_of(b, v, n) == Some(i)
{
    lemma_first_of(b, v, n);
    match first_of(b, v, n) {
        Some(k) => { if k < i { assert(b[k] != v); } else if k > i { assert(b[i] != v); } }
        None => { assert(b[i] != v); }
    }
}
pub proof fn lemma_first_of_none(b: Seq<u8>, v: u8, n: int)
    requires forall|j: int| 0 <= j < b.len() && j < n ==> b[j] != v
    ensures first_of(b, v, n) is None
{
    lemma_first_of(b, v, n);
}
''')

ITEM('enum Dechunker', derive_add=['Structural'])
ITEM('struct Pos')

IMPL('impl Dechunker')
FN('new', props=['C07', 'C06'], ret='r', ensures=[('aux.Dechunker.new', 'r == Dechunker::Size')])
FN('is_on_chunk_boundary', props=['C07'], ret='r', ensures=[('aux.is_on_chunk_boundary', 'r == (*self is Size)')])
FN('is_ended', props=['C07', 'C08'], ret='r', ensures=[('aux.Dechunker.is_ended', 'r == (*self is Ended)')])

HANDLER_FRAME = 'final(pos).index_in <= src.len() && final(pos).index_in >= old(pos).index_in'

FN('read_size', props=['C07', 'C12', 'C01'], ret='r', lost=SANITY_LOST,
   requires=[('aux.read_size.pre', 'old(pos).index_in <= src.len() && *old(self) is Size')],
   ensures=[
       ('aux.read_size.frame', 'final(pos).index_out == old(pos).index_out && ' + HANDLER_FRAME + ' && (r is Err ==> *final(self) == *old(self))'),
       ('C07.size_line_exact', '''({
            let win = src@.subrange(old(pos).index_in as int, src.len() as int);
            match spec_find_crlf(win) {
                None => r == Ok::<bool, Error>(false) && *final(self) == *old(self) && *final(pos) == *old(pos),
                Some(i) => if i > sanity_limit() { r is Err } else {
                    match size_line(win.subrange(0, i)) {
                        SizeLine::NotAscii => r is Err,
                        SizeLine::NotANumber => r is Err,
                        SizeLine::Last => r == Ok::<bool, Error>(true) && *final(self) == Dechunker::Ending && final(pos).index_in == old(pos).index_in + i + 2,
                        SizeLine::Data(n) => r == Ok::<bool, Error>(true) && *final(self) == Dechunker::Chunk(n) && n > 0 && final(pos).index_in == old(pos).index_in + i + 2,
                    }
                }
            }
        })'''),
   ],
   head='proof { axiom_slice_len(src); }',
   rewrites=[
       ('N9', "src.iter().take(100).position(|c| *c == b';')", "slice_take_position(src, 100, b';')"),
       ('N5', '.map_err(|_| Error::ChunkLenNotAscii)?', '.map_err(|_e: core::str::Utf8Error| -> (e2: Error) ensures e2 == Error::ChunkLenNotAscii { Error::ChunkLenNotAscii })?'),
       ('N5', '.map_err(|_| Error::ChunkLenNotANumber)?', '.map_err(|_e: core::num::ParseIntError| -> (e2: Error) ensures e2 == Error::ChunkLenNotANumber { Error::ChunkLenNotANumber })?'),
   ],
   before=[
       ('let len_str = ', '''proof {
            let line = src@.subrange(0, i as int);
            lemma_first_of(line, 59u8, line.len() as int);
            match maybe_meta {
                Some(m) => { if m < i { assert forall|j: int| 0 <= j < m implies line[j] != 59u8 by { assert(line[j] == src@[j]); }
                                         lemma_first_of_unique(line, 59u8, line.len() as int, m as int); }
                             else { assert forall|j: int| 0 <= j < line.len() && j < line.len() implies line[j] != 59u8 by { assert(line[j] == src@[j]); }
                                    lemma_first_of_none(line, 59u8, line.len() as int); } }
                None => { assert forall|j: int| 0 <= j < line.len() && j < line.len() implies line[j] != 59u8 by { assert(line[j] == src@[j]); }
                          lemma_first_of_none(line, 59u8, line.len() as int); }
            }
            assert(src@.subrange(0, len_end as int) =~= hex_part(line));
        }'''),
   ],
   )

FN('read_data', props=['C07', 'C12', 'C01'], ret='r',
   requires=[('aux.read_data.pre', 'old(pos).index_in <= src.len() && old(pos).index_out <= old(dst).len() && *old(self) is Chunk && old(self)->Chunk_0 > 0')],
   ensures=[
       ('aux.read_data.frame', 'final(dst).len() == old(dst).len() && r is Ok && final(pos).index_in <= src.len() && final(pos).index_out <= old(dst).len()'),
       ('C07.data_copy_exact', '''({
            let n = min3(src.len() - old(pos).index_in, old(dst).len() - old(pos).index_out, old(self)->Chunk_0 as int);
            &&& final(pos).index_in == old(pos).index_in + n
            &&& final(pos).index_out == old(pos).index_out + n
            &&& r->Ok_0 == (n > 0)
            &&& final(dst)@.subrange(old(pos).index_out as int, old(pos).index_out + n) == src@.subrange(old(pos).index_in as int, old(pos).index_in + n)
            &&& final(dst)@.subrange(0, old(pos).index_out as int) == old(dst)@.subrange(0, old(pos).index_out as int)
            &&& (if n == old(self)->Chunk_0 { *final(self) is CrLf } else { *final(self) == Dechunker::Chunk((old(self)->Chunk_0 - n) as usize) })
        })'''),
   ],
   head='proof { axiom_slice_len(src); axiom_slice_len(dst); }',
   after=[('dst[..to_read].copy_from_slice(&src[..to_read]);', '''proof {
            assert(dst@.subrange(0, to_read as int) =~= src@.subrange(0, to_read as int));
        }''')],
   )

FN('expect_crlf', props=['C07', 'C12', 'C01'], ret='r',
   requires=[('aux.expect_crlf.pre', 'old(pos).index_in <= src.len() && *old(self) is CrLf')],
   ensures=[
       ('aux.expect_crlf.frame', 'final(pos).index_out == old(pos).index_out && ' + HANDLER_FRAME + ' && (r is Err ==> *final(self) == *old(self))'),
       ('C07.crlf_after_data_exact', '''({
            let win = src@.subrange(old(pos).index_in as int, src.len() as int);
            match spec_find_crlf(win) {
                None => r == Ok::<bool, Error>(false) && *final(self) == *old(self) && *final(pos) == *old(pos),
                Some(i) => if i > 0 { r is Err }
                           else { r == Ok::<bool, Error>(false) && *final(self) == Dechunker::Size && final(pos).index_in == old(pos).index_in + 2 },
            }
        })'''),
   ],
   head='proof { axiom_slice_len(src); }')

FN('trailer_or_ended', props=['C07', 'C12', 'C01'], ret='r',
   requires=[('aux.trailer_or_ended.pre', 'old(pos).index_in <= src.len() && *old(self) is Ending')],
   ensures=[
       ('aux.trailer_or_ended.frame', 'final(pos).index_out == old(pos).index_out && r is Ok && ' + HANDLER_FRAME),
       ('C07.end_or_trailer_exact', '''({
            let win = src@.subrange(old(pos).index_in as int, src.len() as int);
            match spec_find_crlf(win) {
                None => r->Ok_0 == false && *final(self) == *old(self) && *final(pos) == *old(pos),
                Some(i) => r->Ok_0 == true && (if i == 0 { *final(self) == Dechunker::Ended && final(pos).index_in == old(pos).index_in + 2 }
                                               else { *final(self) == Dechunker::Trailer && *final(pos) == *old(pos) }),
            }
        })'''),
   ],
   head='proof { axiom_slice_len(src); }')

FN('trailer', props=['C07', 'C12', 'C01'], ret='r',
   requires=[
       ('aux.trailer.pre', 'old(pos).index_in <= src.len() && *old(self) is Trailer'),
       ('C12.trailer_assert_holds', 'spec_find_crlf(src@.subrange(old(pos).index_in as int, src.len() as int)) matches Some(i) && i > 0'),
   ],
   ensures=[
       ('aux.trailer.frame', 'final(pos).index_out == old(pos).index_out && ' + HANDLER_FRAME),
       ('C07.trailer_line_exact', '''({
            let win = src@.subrange(old(pos).index_in as int, src.len() as int);
            r == Ok::<bool, Error>(true) && *final(self) == Dechunker::Ending && final(pos).index_in == old(pos).index_in + spec_find_crlf(win)->Some_0 + 2
        })'''),
   ],
   head='proof { axiom_slice_len(src); }')

FN('parse_input', props=['C07', 'C12', 'C01'], ret='r',
   requires=[('aux.parse_input.state', 'dechunker_wf(*old(self))')],
   ensures=[
       ('aux.parse_input.frame', 'final(dst).len() == old(dst).len()'),
       ('C07.parse_input_is_the_interpreter', '''match spec_parse(*old(self), src@, old(dst).len() as int) {
            None => r is Err,
            Some(p) => r == Ok::<(usize, usize), Error>((p.i as usize, p.out.len() as usize)) && p.i >= 0 && *final(self) == p.state && final(dst)@.subrange(0, p.out.len() as int) == p.out }'''),
       ('C12.counts', 'r is Ok ==> r->Ok_0.0 <= src.len() && r->Ok_0.1 <= old(dst).len()'),
       ('C12.state_rests_even_on_error', 'dechunker_wf(*final(self))'),
       ('C12.copy_in_order', 'r is Ok ==> is_subseq(final(dst)@.subrange(0, r->Ok_0.1 as int), src@.subrange(0, r->Ok_0.0 as int))'),
       ('C07.ended_consumes_nothing', '*old(self) is Ended ==> r == Ok::<(usize, usize), Error>((0usize, 0usize)) && *final(self) is Ended'),
   ],
   head='proof { axiom_slice_len(src); axiom_slice_len(dst); }',
   loops={1: {'kw': 'loop',
              'before': '''
        let ghost mut p_in: usize = 0;
        let ghost mut p_out: usize = 0;
        let ghost mut p_state: Dechunker = *self;
        let ghost mut p_dst: Seq<u8> = dst@;
        proof {
            assert(src@.subrange(0, src.len() as int) =~= src@);
            match spec_parse(*self, src@, dst.len() as int) { Some(q) => { assert(dst@.subrange(0, 0) + q.out =~= q.out); } None => {} }
        }
''',
              'invariant_except_break': [
                  ('aux.parse_input.trailer_transient', '!(*self is Trailer) || (spec_find_crlf(src@.subrange(pos.index_in as int, src.len() as int)) matches Some(i) && i > 0)'),
                  ('aux.parse_input.loop.interpreter', '''match spec_parse(*self, src@.subrange(pos.index_in as int, src.len() as int), dst.len() - pos.index_out) {
                        None => spec_parse(*old(self), src@, old(dst).len() as int) is None,
                        Some(q) => spec_parse(*old(self), src@, old(dst).len() as int) == Some(ParseOut { state: q.state, i: pos.index_in + q.i, out: dst@.subrange(0, pos.index_out as int) + q.out }) }'''),
              ],
              'invariant': [
                  ('aux.parse_input.loop.bounds', 'pos.index_in <= src.len() && pos.index_out <= dst.len() && dst.len() == old(dst).len() && src.len() <= usize::MAX'),
                  ('aux.parse_input.loop.chunk_pos', '*self is Chunk ==> self->Chunk_0 > 0'),
                  ('aux.parse_input.loop.ended', '*old(self) is Ended ==> *self is Ended && pos.index_in == 0 && pos.index_out == 0'),
              ],
              'ensures': [('aux.parse_input.loop.exit', '!(*self is Trailer)'),
                          ('aux.parse_input.loop.exit_interpreter', 'spec_parse(*old(self), src@, old(dst).len() as int) == Some(ParseOut { state: *self, i: pos.index_in as int, out: dst@.subrange(0, pos.index_out as int) })')],
              'decreases': 'src.len() - pos.index_in, rank(*self)',
              'body_head': '''
            proof { p_in = pos.index_in; p_out = pos.index_out; p_state = *self; p_dst = dst@;
                    lemma_parse_unfold(*self, src@.subrange(pos.index_in as int, src.len() as int), dst.len() - pos.index_out);
                    lemma_first_cr(src@.subrange(pos.index_in as int, src.len() as int)); }
''',
              'after': '''
        proof { lemma_parse_basic(*old(self), src@, dst.len() as int); }
''',
              }},
   before=[('if !more {', '''
            proof {
                let win0 = src@.subrange(p_in as int, src.len() as int);
                let c = pos.index_in - p_in;
                let k = pos.index_out - p_out;
                assert(win0.subrange(c, win0.len() as int) =~= src@.subrange(pos.index_in as int, src.len() as int));
                assert(win0.subrange(0, k) =~= src@.subrange(p_in as int, p_in + k));
                assert(p_dst.subrange(0, p_out as int) =~= dst@.subrange(0, p_out as int)) by {
                    if p_state is Chunk {} else { assert(dst@ == p_dst); }
                }
                assert(dst@.subrange(0, pos.index_out as int) =~= p_dst.subrange(0, p_out as int) + dst@.subrange(p_out as int, pos.index_out as int));
                match spec_parse(*self, src@.subrange(pos.index_in as int, src.len() as int), dst.len() - pos.index_out) {
                    Some(q) => {
                        let a = p_dst.subrange(0, p_out as int); let b = dst@.subrange(p_out as int, pos.index_out as int);
                        assert((a + b) + q.out =~= a + (b + q.out));
                    }
                    None => {}
                }
            }
''')],
   )
END()
