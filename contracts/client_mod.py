# src/client/mod.rs : the two capacity constants
MODULE('client', 'src/client/mod.rs')
ITEM('const MAX_EXTRA_HEADERS')
ITEM('const MAX_RESPONSE_HEADERS')
