# module `coding`: the chunked-coding witness and the composition proof for C07 (pure spec / proof code, written in /verif)
MODULE('coding', 'src/lib.rs', uses='''
use crate::*;
use crate::util::{spec_find_crlf, first_cr, lemma_first_cr, lemma_first_cr_unique};
use crate::chunk::{Dechunker, StepOut, ParseOut, SizeLine, size_line, spec_step, spec_parse, lemma_parse_unfold, rank, dechunker_wf};
use crate::body::{spec_read, lemma_read_unfold};
''')
RAW('''
/// the tokens of a chunked coding, one per decoder handler
pub enum Tok {
    /// chunk-size line (without its CRLF) of a chunk with n > 0 data bytes
    SizeLine(Seq<u8>, usize),
    /// the data of a chunk
    Data(Seq<u8>),
    /// the CRLF after chunk data
    DataEnd,
    /// the last-chunk line "0[;ext]" (without its CRLF)
    LastLine(Seq<u8>),
    /// one trailer field line (without its CRLF)
    TrailerLine(Seq<u8>),
    /// the final CRLF
    FinalEnd,
}
pub open spec fn tok_bytes(t: Tok) -> Seq<u8> {
    match t {
        Tok::SizeLine(l, _) => l + crlf(),
        Tok::Data(d) => d,
        Tok::DataEnd => crlf(),
        Tok::LastLine(l) => l + crlf(),
        Tok::TrailerLine(l) => l + crlf(),
        Tok::FinalEnd => crlf(),
    }
}
pub open spec fn tok_data(t: Tok) -> Seq<u8> { match t { Tok::Data(d) => d, _ => Seq::<u8>::empty() } }
pub open spec fn no_cr(l: Seq<u8>) -> bool { forall|i: int| 0 <= i < l.len() ==> l[i] != 13u8 }
/// C07's "valid chunked coding", token by token: size lines are at most 20 bytes (the decoder's documented sanity limit), contain no CR,
/// and denote (hex, optional extension, any case, leading zeros) the length of the data that follows; trailer lines are non-empty without CR
pub open spec fn valid_at(toks: Seq<Tok>, t: int) -> bool {
    match toks[t] {
        Tok::SizeLine(l, n) => no_cr(l) && l.len() <= crate::chunk::sanity_limit() && size_line(l) == SizeLine::Data(n) && n > 0 && t + 2 < toks.len()
            && toks[t + 1] is Data && toks[t + 1]->Data_0.len() == n && toks[t + 2] is DataEnd,
        Tok::Data(d) => d.len() > 0 && t + 1 < toks.len() && toks[t + 1] is DataEnd,
        Tok::DataEnd => t + 1 < toks.len() && (toks[t + 1] is SizeLine || toks[t + 1] is LastLine),
        Tok::LastLine(l) => no_cr(l) && l.len() <= crate::chunk::sanity_limit() && size_line(l) == SizeLine::Last && t + 1 < toks.len() && (toks[t + 1] is TrailerLine || toks[t + 1] is FinalEnd),
        Tok::TrailerLine(l) => no_cr(l) && l.len() > 0 && t + 1 < toks.len() && (toks[t + 1] is TrailerLine || toks[t + 1] is FinalEnd),
        Tok::FinalEnd => t + 1 == toks.len(),
    }
}
pub open spec fn valid_toks(toks: Seq<Tok>) -> bool {
    toks.len() > 0 && (toks[0] is SizeLine || toks[0] is LastLine) && forall|t: int| 0 <= t < toks.len() ==> #[trigger] valid_at(toks, t)
}
/// bytes of the tokens [0, t)
pub open spec fn enc_upto(toks: Seq<Tok>, t: int) -> Seq<u8>
    decreases t
{ if t <= 0 { Seq::<u8>::empty() } else { enc_upto(toks, t - 1) + tok_bytes(toks[t - 1]) } }
/// chunk data of the tokens [0, t)
pub open spec fn payload_upto(toks: Seq<Tok>, t: int) -> Seq<u8>
    decreases t
{ if t <= 0 { Seq::<u8>::empty() } else { payload_upto(toks, t - 1) + tok_data(toks[t - 1]) } }
pub open spec fn enc(toks: Seq<Tok>) -> Seq<u8> { enc_upto(toks, toks.len() as int) }
pub open spec fn payload(toks: Seq<Tok>) -> Seq<u8> { payload_upto(toks, toks.len() as int) }
/// the stream carries the coding, followed by anything (bytes of the next message)
pub open spec fn stream_ok(s: Seq<u8>, toks: Seq<Tok>) -> bool { enc(toks).is_prefix_of(s) }

/// the decoder state corresponds to "about to process token t" (Chunk(l): l bytes of the data token t are left)
pub open spec fn at(s: Dechunker, toks: Seq<Tok>, t: int) -> bool {
    0 <= t <= toks.len() && match s {
        Dechunker::Size => t < toks.len() && (toks[t] is SizeLine || toks[t] is LastLine),
        Dechunker::Chunk(l) => t < toks.len() && toks[t] is Data && 0 < l <= toks[t]->Data_0.len(),
        Dechunker::CrLf => t < toks.len() && toks[t] is DataEnd,
        Dechunker::Ending => t < toks.len() && (toks[t] is TrailerLine || toks[t] is FinalEnd),
        Dechunker::Trailer => t < toks.len() && toks[t] is TrailerLine,
        Dechunker::Ended => t == toks.len(),
    }
}
pub open spec fn intra(s: Dechunker, toks: Seq<Tok>, t: int) -> int {
    match s { Dechunker::Chunk(l) => toks[t]->Data_0.len() - l, _ => 0 }
}
/// absolute stream position / payload position of a decoder state
pub open spec fn pos(s: Dechunker, toks: Seq<Tok>, t: int) -> int { enc_upto(toks, t).len() + intra(s, toks, t) }
pub open spec fn dpos(s: Dechunker, toks: Seq<Tok>, t: int) -> int { payload_upto(toks, t).len() + intra(s, toks, t) }
/// token index after one handler step
pub open spec fn next_t(s: Dechunker, next: Dechunker, t: int) -> int {
    if (s is Chunk && next is Chunk) || next is Trailer { t } else { t + 1 }
}
''')

PROOF('lemma_enc', ['C07'], '''
pub proof fn lemma_enc_upto_mono(toks: Seq<Tok>, a: int, b: int)
    requires 0 <= a <= b <= toks.len()
    ensures enc_upto(toks, a).is_prefix_of(enc_upto(toks, b)), payload_upto(toks, a).is_prefix_of(payload_upto(toks, b)),
        enc_upto(toks, a).len() <= enc_upto(toks, b).len(), payload_upto(toks, a).len() <= payload_upto(toks, b).len(),
    decreases b - a
{
    if a < b {
        lemma_enc_upto_mono(toks, a, b - 1);
    }
}
/// the stream holds the bytes of token t at its offset
pub proof fn lemma_stream_token(s: Seq<u8>, toks: Seq<Tok>, t: int)
    requires stream_ok(s, toks), 0 <= t < toks.len(),
    ensures
        enc_upto(toks, t + 1).len() == enc_upto(toks, t).len() + tok_bytes(toks[t]).len(),
        enc_upto(toks, t + 1).len() <= s.len(),
        s.subrange(enc_upto(toks, t).len() as int, enc_upto(toks, t + 1).len() as int) == tok_bytes(toks[t]),
        payload_upto(toks, t + 1) == payload_upto(toks, t) + tok_data(toks[t]),
        payload_upto(toks, t + 1).is_prefix_of(payload(toks)),
{
    lemma_enc_upto_mono(toks, t + 1, toks.len() as int);
    let e = enc(toks);
    let a = enc_upto(toks, t).len() as int;
    let b = enc_upto(toks, t + 1).len() as int;
    assert(enc_upto(toks, t + 1) == enc_upto(toks, t) + tok_bytes(toks[t]));
    assert(s.subrange(a, b) =~= tok_bytes(toks[t])) by {
        assert forall|i: int| 0 <= i < b - a implies s.subrange(a, b)[i] == tok_bytes(toks[t])[i] by {
            assert(s[a + i] == e[a + i]);
            assert(e[a + i] == enc_upto(toks, t + 1)[a + i]);
        }
    }
}
/// positions of a decoder state lie inside the coding / the payload
pub proof fn lemma_pos_bound(toks: Seq<Tok>, st: Dechunker, t: int)
    requires at(st, toks, t)
    ensures 0 <= pos(st, toks, t) <= enc(toks).len(), 0 <= dpos(st, toks, t) <= payload(toks).len(),
        st is Ended ==> pos(st, toks, t) == enc(toks).len() && dpos(st, toks, t) == payload(toks).len(),
        !(st is Ended) ==> pos(st, toks, t) < enc(toks).len(),
{
    lemma_enc_upto_mono(toks, t, toks.len() as int);
    if t < toks.len() {
        lemma_enc_upto_mono(toks, t + 1, toks.len() as int);
        assert(enc_upto(toks, t + 1) == enc_upto(toks, t) + tok_bytes(toks[t]));
        assert(payload_upto(toks, t + 1) == payload_upto(toks, t) + tok_data(toks[t]));
    }
}
/// a line without CR followed by CRLF: find_crlf finds the CRLF at the end of the line, on any window that contains it
pub proof fn lemma_find_crlf_line(win: Seq<u8>, l: Seq<u8>)
    requires no_cr(l), win.len() >= l.len() + 2, win.subrange(0, (l.len() + 2) as int) == l + crlf(),
    ensures spec_find_crlf(win) == Some(l.len() as int), win.subrange(0, l.len() as int) == l,
{
    let n = l.len() as int;
    assert((l + crlf())[n] == 13u8);
    assert((l + crlf())[n + 1] == 10u8);
    assert(win[n] == win.subrange(0, n + 2)[n]);
    assert(win[n + 1] == win.subrange(0, n + 2)[n + 1]);
    assert forall|j: int| 0 <= j < n implies win[j] != 13u8 by {
        assert(win[j] == win.subrange(0, n + 2)[j]);
        assert((l + crlf())[j] == l[j]);
    }
    lemma_first_cr_unique(win, n);
    assert(win.subrange(0, n) =~= l) by {
        assert forall|j: int| 0 <= j < n implies win.subrange(0, n)[j] == l[j] by {
            assert(win[j] == win.subrange(0, n + 2)[j]);
            assert((l + crlf())[j] == l[j]);
        }
    }
}
/// ... and on any window that is a strict prefix of line + CRLF it finds nothing
pub proof fn lemma_find_crlf_short(win: Seq<u8>, l: Seq<u8>)
    requires no_cr(l), win.len() < l.len() + 2, win == (l + crlf()).subrange(0, win.len() as int),
    ensures spec_find_crlf(win) is None,
{
    lemma_first_cr(win);
    let n = l.len() as int;
    match first_cr(win) {
        Some(i) => {
            assert(win[i] == (l + crlf())[i]);
            if i < n { assert((l + crlf())[i] == l[i]); }
            // i == n: the CR is the last byte of the window
        }
        None => {}
    }
}
''')

PROOF('lemma_step_coding', ['C07'], '''
/// what one handler step does when the decoder sits at token t of a valid coding and sees the next w stream bytes
pub open spec fn step_ok(s: Seq<u8>, toks: Seq<Tok>, st: Dechunker, t: int, w: int, room: int) -> bool {
    let p = pos(st, toks, t);
    let d = dpos(st, toks, t);
    let win = s.subrange(p, p + w);
    match spec_step(st, win, room) {
        StepOut::Stop => !(st is Trailer),
        StepOut::Error => false,
        StepOut::Go { next, consumed, copied, more } => {
            let t2 = next_t(st, next, t);
            &&& at(next, toks, t2) && 0 <= consumed <= w && copied.len() <= room
            &&& pos(next, toks, t2) == p + consumed
            &&& dpos(next, toks, t2) == d + copied.len()
            &&& copied =~= payload(toks).subrange(d, d + copied.len())
            &&& (copied.len() > 0 ==> st is Chunk)
            &&& (more && consumed == 0 ==> rank(next) < rank(st))
            &&& (next is Trailer ==> w >= toks[t2]->TrailerLine_0.len() + 2)
            &&& (next is Chunk ==> next->Chunk_0 > 0)
            &&& (!more ==> next is Size || (st is Chunk && consumed == 0))
        }
    }
}
pub proof fn lemma_step_coding(s: Seq<u8>, toks: Seq<Tok>, st: Dechunker, t: int, w: int, room: int)
    requires valid_toks(toks), stream_ok(s, toks), at(st, toks, t), w >= 0, room >= 0, pos(st, toks, t) + w <= s.len(),
        st is Chunk ==> st->Chunk_0 > 0,
        st is Trailer ==> w >= toks[t]->TrailerLine_0.len() + 2,
    ensures step_ok(s, toks, st, t, w, room)
{
    let p = pos(st, toks, t);
    let win = s.subrange(p, p + w);
    if t < toks.len() {
        assert(valid_at(toks, t));
        lemma_stream_token(s, toks, t);
        if t + 1 < toks.len() { lemma_stream_token(s, toks, t + 1); assert(valid_at(toks, t + 1)); }
        let o = enc_upto(toks, t).len() as int;
        let tb = tok_bytes(toks[t]);
        match st {
            Dechunker::Size => {
                let l = match toks[t] { Tok::SizeLine(l, _) => l, Tok::LastLine(l) => l, _ => Seq::<u8>::empty() };
                assert(tb == l + crlf());
                if w >= l.len() + 2 {
                    assert(win.subrange(0, (l.len() + 2) as int) =~= s.subrange(o, o + l.len() + 2));
                    lemma_find_crlf_line(win, l);
                } else {
                    assert(win =~= (l + crlf()).subrange(0, w)) by {
                        assert forall|i: int| 0 <= i < w implies win[i] == (l + crlf())[i] by { assert(s.subrange(o, o + tb.len())[i] == s[o + i]); }
                    }
                    lemma_find_crlf_short(win, l);
                }
            }
            Dechunker::Chunk(lf) => {
                let dd = toks[t]->Data_0;
                let k = dd.len() - lf;
                let n = min3(w, room, lf as int);
                assert(win.subrange(0, n) =~= dd.subrange(k, k + n)) by {
                    assert forall|i: int| 0 <= i < n implies win.subrange(0, n)[i] == dd[k + i] by { assert(s.subrange(o, o + dd.len())[k + i] == s[o + k + i]); }
                }
                let pl = payload(toks);
                let d0 = payload_upto(toks, t).len() as int;
                assert(dd.subrange(k, k + n) =~= pl.subrange(d0 + k, d0 + k + n)) by {
                    assert forall|i: int| 0 <= i < n implies #[trigger] dd.subrange(k, k + n)[i] == pl.subrange(d0 + k, d0 + k + n)[i] by {
                        assert(payload_upto(toks, t + 1)[d0 + k + i] == dd[k + i]);
                        assert(pl[d0 + k + i] == payload_upto(toks, t + 1)[d0 + k + i]);
                    }
                }
            }
            Dechunker::CrLf => {
                let l = Seq::<u8>::empty();
                assert(tb =~= l + crlf());
                if w >= 2 {
                    assert(win.subrange(0, 2) =~= s.subrange(o, o + 2));
                    lemma_find_crlf_line(win, l);
                } else {
                    assert(win =~= (l + crlf()).subrange(0, w)) by {
                        assert forall|i: int| 0 <= i < w implies win[i] == (l + crlf())[i] by { assert(s.subrange(o, o + 2)[i] == s[o + i]); }
                    }
                    lemma_find_crlf_short(win, l);
                }
            }
            Dechunker::Ending => {
                let l = match toks[t] { Tok::TrailerLine(l) => l, _ => Seq::<u8>::empty() };
                assert(tb =~= l + crlf());
                if w >= l.len() + 2 {
                    assert(win.subrange(0, (l.len() + 2) as int) =~= s.subrange(o, o + l.len() + 2));
                    lemma_find_crlf_line(win, l);
                } else {
                    assert(win =~= (l + crlf()).subrange(0, w)) by {
                        assert forall|i: int| 0 <= i < w implies win[i] == (l + crlf())[i] by { assert(s.subrange(o, o + tb.len())[i] == s[o + i]); }
                    }
                    lemma_find_crlf_short(win, l);
                }
            }
            Dechunker::Trailer => {
                let l = toks[t]->TrailerLine_0;
                assert(tb == l + crlf());
                assert(win.subrange(0, (l.len() + 2) as int) =~= s.subrange(o, o + l.len() + 2));
                lemma_find_crlf_line(win, l);
            }
            Dechunker::Ended => {}
        }
    }
}
''')

PROOF('lemma_parse_coding', ['C07'], '''
/// the data produced by one parse comes from a single Data token (never from two chunks)
pub open spec fn one_data_token(toks: Seq<Tok>, st: Dechunker, t: int, d: int, n: int) -> bool {
    n > 0 ==> {
        let td = if st is Chunk { t } else { t + 1 };
        &&& (st is Chunk || st is Size) && 0 <= td < toks.len() && toks[td] is Data
        &&& payload_upto(toks, td).len() <= d && d + n <= payload_upto(toks, td + 1).len()
    }
}
/// what one `parse_input` (= spec_parse) does at token t of a valid coding on the next w stream bytes; t2 = token index afterwards
pub open spec fn parse_ok(s: Seq<u8>, toks: Seq<Tok>, st: Dechunker, t: int, w: int, room: int, t2: int) -> bool {
    let p = pos(st, toks, t);
    let d = dpos(st, toks, t);
    match spec_parse(st, s.subrange(p, p + w), room) {
        None => false,
        Some(r) => {
            &&& at(r.state, toks, t2) && dechunker_wf(r.state) && t <= t2 && 0 <= r.i <= w && r.out.len() <= room
            &&& pos(r.state, toks, t2) == p + r.i
            &&& dpos(r.state, toks, t2) == d + r.out.len()
            &&& r.out =~= payload(toks).subrange(d, d + r.out.len())
            &&& one_data_token(toks, st, t, d, r.out.len() as int)
            &&& ((st is Ending || st is Trailer || st is CrLf || st is Ended) ==> r.out.len() == 0)
            &&& (r.state is Chunk ==> (st is Chunk && t2 == t) || (st is Size && t2 == t + 1))
        }
    }
}
pub proof fn lemma_parse_coding(s: Seq<u8>, toks: Seq<Tok>, st: Dechunker, t: int, w: int, room: int) -> (t2: int)
    requires valid_toks(toks), stream_ok(s, toks), at(st, toks, t), w >= 0, room >= 0, pos(st, toks, t) + w <= s.len(),
        st is Chunk ==> st->Chunk_0 > 0,
        st is Trailer ==> w >= toks[t]->TrailerLine_0.len() + 2,
    ensures parse_ok(s, toks, st, t, w, room, t2)
    decreases w, rank(st)
{
    let p = pos(st, toks, t);
    let d = dpos(st, toks, t);
    let win = s.subrange(p, p + w);
    lemma_parse_unfold(st, win, room);
    lemma_step_coding(s, toks, st, t, w, room);
    if t < toks.len() { lemma_stream_token(s, toks, t); assert(valid_at(toks, t)); }
    match spec_step(st, win, room) {
        StepOut::Stop => {
            assert(Seq::<u8>::empty() =~= payload(toks).subrange(d, d));
            t
        }
        StepOut::Error => { t }
        StepOut::Go { next, consumed, copied, more } => {
            let t1 = next_t(st, next, t);
            if !more {
                t1
            } else {
                let rest = win.subrange(consumed, win.len() as int);
                assert(rest =~= s.subrange(p + consumed, p + consumed + (w - consumed)));
                let t2 = lemma_parse_coding(s, toks, next, t1, w - consumed, room - copied.len());
                let r = spec_parse(next, rest, room - copied.len())->Some_0;
                let dd = d + copied.len();
                assert(copied + r.out =~= payload(toks).subrange(d, d + copied.len() + r.out.len()));
                if t1 < toks.len() { assert(valid_at(toks, t1)); lemma_stream_token(s, toks, t1); }
                if t1 + 1 < toks.len() { assert(valid_at(toks, t1 + 1)); }
                t2
            }
        }
    }
}
''')

PROOF('lemma_read_coding', ['C07'], '''
/// what one `read` of a chunked body (= spec_read) does at token t of a valid coding on the next w stream bytes
pub open spec fn read_ok(s: Seq<u8>, toks: Seq<Tok>, st: Dechunker, t: int, w: int, room: int, stop: bool, t2: int) -> bool {
    let p = pos(st, toks, t);
    let d = dpos(st, toks, t);
    match spec_read(st, s.subrange(p, p + w), room, stop) {
        None => false,
        Some(r) => {
            &&& at(r.state, toks, t2) && dechunker_wf(r.state) && t <= t2 && 0 <= r.i <= w && r.out.len() <= room
            &&& pos(r.state, toks, t2) == p + r.i
            &&& dpos(r.state, toks, t2) == d + r.out.len()
            &&& r.out =~= payload(toks).subrange(d, d + r.out.len())
            &&& (stop ==> one_data_token(toks, st, t, d, r.out.len() as int))
        }
    }
}
pub proof fn lemma_read_coding(s: Seq<u8>, toks: Seq<Tok>, st: Dechunker, t: int, w: int, room: int, stop: bool) -> (t2: int)
    requires valid_toks(toks), stream_ok(s, toks), at(st, toks, t), dechunker_wf(st), w >= 0, room >= 0, pos(st, toks, t) + w <= s.len(),
    ensures read_ok(s, toks, st, t, w, room, stop, t2)
    decreases w
{
    let p = pos(st, toks, t);
    let d = dpos(st, toks, t);
    let win = s.subrange(p, p + w);
    lemma_read_unfold(st, win, room, stop);
    let t1 = lemma_parse_coding(s, toks, st, t, w, room);
    let r = spec_parse(st, win, room)->Some_0;
    if r.i <= 0 || r.i >= win.len() || r.out.len() >= room || r.state is Ended || (stop && r.state is Size) {
        t1
    } else {
        let rest = win.subrange(r.i, win.len() as int);
        assert(rest =~= s.subrange(p + r.i, p + r.i + (w - r.i)));
        let t2 = lemma_read_coding(s, toks, r.state, t1, w - r.i, room - r.out.len(), stop);
        let r2 = spec_read(r.state, rest, room - r.out.len(), stop)->Some_0;
        lemma_pos_bound(toks, r2.state, t2);
        lemma_pos_bound(toks, r.state, t1);
        assert(r.out + r2.out =~= payload(toks).subrange(d, d + r.out.len() + r2.out.len()));
        if t1 < toks.len() { assert(valid_at(toks, t1)); lemma_stream_token(s, toks, t1); }
        if t < toks.len() { assert(valid_at(toks, t)); lemma_stream_token(s, toks, t); }
        if stop && r2.out.len() > 0 {
            // the read continued, so the first parse ended inside an open chunk: same Data token
            assert(r.state is Chunk);
            assert(parse_ok(s, toks, st, t, w, room, t1));
            let td = if st is Chunk { t } else { t + 1 };
            assert(td == t1);
            if t + 1 < toks.len() { lemma_stream_token(s, toks, t + 1); }
        }
        t2
    }
}
''')

RAW('''
/// one read of the body as the caller schedules it: up to `w` further bytes of the stream have arrived (the caller
/// re-presents unconsumed bytes, so the window starts at the bytes consumed so far), `room` bytes of output space
pub struct ChunkedRead { pub w: int, pub room: int, pub stop: bool }
pub struct RunState { pub state: Dechunker, pub consumed: int, pub output: Seq<u8>, pub last_out: int }
/// the state after the first k reads of a schedule, starting from a fresh decoder; None = some read failed
pub open spec fn run_reads(s: Seq<u8>, reads: Seq<ChunkedRead>, k: int) -> Option<RunState>
    decreases k
{
    if k <= 0 { Some(RunState { state: Dechunker::Size, consumed: 0, output: Seq::<u8>::empty(), last_out: 0 }) } else {
        match run_reads(s, reads, k - 1) {
            None => None,
            Some(q) => {
                let rd = reads[k - 1];
                let w = if q.consumed + rd.w <= s.len() { rd.w } else { s.len() - q.consumed };
                match spec_read(q.state, s.subrange(q.consumed, q.consumed + w), rd.room, rd.stop) {
                    None => None,
                    Some(r) => Some(RunState { state: r.state, consumed: q.consumed + r.i, output: q.output + r.out, last_out: r.out.len() as int }),
                }
            }
        }
    }
}
/// the bytes [d, d+n) of the payload lie inside one chunk
pub open spec fn within_one_chunk(toks: Seq<Tok>, d: int, n: int) -> bool {
    n > 0 ==> exists|td: int| 0 <= td < toks.len() && #[trigger] toks[td] is Data && payload_upto(toks, td).len() <= d && d + n <= payload_upto(toks, td + 1).len()
}
''')
PROOF('lemma_chunked_history', ['C07', 'C01'], '''
/// C07: for ANY valid coding followed by anything, ANY arrival schedule, ANY output buffer sizes, boundary stopping on or off:
/// no read fails, the outputs concatenate to a prefix of the chunk data, the input consumed never exceeds the coding and is
/// always the position the decoder state corresponds to, the body is ended exactly when the whole coding (incl. its final
/// CRLF) is consumed - and then the output is exactly the payload -, and with boundary stopping one read never spans two chunks
pub proof fn lemma_chunked_history(s: Seq<u8>, toks: Seq<Tok>, reads: Seq<ChunkedRead>, k: int) -> (t: int)
    requires valid_toks(toks), stream_ok(s, toks), 0 <= k <= reads.len(),
        forall|j: int| 0 <= j < reads.len() ==> (#[trigger] reads[j]).w >= 0 && reads[j].room >= 0,
    ensures
        /*@OBL:C07.history_no_read_fails*/ run_reads(s, reads, k) is Some,
        ({
            let q = run_reads(s, reads, k)->Some_0;
            &&& at(q.state, toks, t) && dechunker_wf(q.state)
            &&& /*@OBL:C07.history_consumed_is_the_decoder_position*/ q.consumed == pos(q.state, toks, t)
            &&& /*@OBL:C07.history_never_over_reads*/ 0 <= q.consumed <= enc(toks).len()
            &&& /*@OBL:C07.history_output_is_payload_prefix*/ q.output =~= payload(toks).subrange(0, dpos(q.state, toks, t))
            &&& /*@OBL:C07.history_ended_iff_coding_consumed*/ (q.state is Ended <==> q.consumed == enc(toks).len())
            &&& /*@OBL:C07.history_complete_output_is_the_payload*/ (q.state is Ended ==> q.output =~= payload(toks))
            &&& /*@OBL:C07.history_boundary_stop_one_chunk_per_read*/ (k > 0 && reads[k - 1].stop ==> within_one_chunk(toks, q.output.len() - q.last_out, q.last_out))
        }),
    decreases k
{
    if k <= 0 {
        lemma_pos_bound(toks, Dechunker::Size, 0);
        assert(Seq::<u8>::empty() =~= payload(toks).subrange(0, 0));
        0
    } else {
        let t0 = lemma_chunked_history(s, toks, reads, k - 1);
        let q = run_reads(s, reads, k - 1)->Some_0;
        let rd = reads[k - 1];
        let w = if q.consumed + rd.w <= s.len() { rd.w } else { s.len() - q.consumed };
        lemma_pos_bound(toks, q.state, t0);
        assert(enc(toks).len() <= s.len());
        let t1 = lemma_read_coding(s, toks, q.state, t0, w, rd.room, rd.stop);
        let r = spec_read(q.state, s.subrange(q.consumed, q.consumed + w), rd.room, rd.stop)->Some_0;
        lemma_pos_bound(toks, r.state, t1);
        let d0 = dpos(q.state, toks, t0);
        assert(q.output + r.out =~= payload(toks).subrange(0, d0 + r.out.len()));
        assert(payload(toks).subrange(0, payload(toks).len() as int) =~= payload(toks));
        if rd.stop && r.out.len() > 0 {
            let td = if q.state is Chunk { t0 } else { t0 + 1 };
            assert(toks[td] is Data);
        }
        t1
    }
}
''')

PROOF('lemma_coding_witness', ['C07'], '''
/// non-vacuity of `valid_toks`: "3\\r\\nabc\\r\\n0\\r\\n\\r\\n" is a valid coding in the sense of this module
pub proof fn lemma_coding_witness()
    ensures /*@OBL:C07.valid_coding_is_inhabited*/ valid_toks(seq![Tok::SizeLine(seq![51u8], 3usize), Tok::Data(seq![97u8, 98u8, 99u8]), Tok::DataEnd, Tok::LastLine(seq![48u8]), Tok::FinalEnd])
{
    let toks = seq![Tok::SizeLine(seq![51u8], 3usize), Tok::Data(seq![97u8, 98u8, 99u8]), Tok::DataEnd, Tok::LastLine(seq![48u8]), Tok::FinalEnd];
    let l3 = seq![51u8];
    let l0 = seq![48u8];
    axiom_ascii_is_utf8(l3);
    axiom_ascii_is_utf8(l0);
    reveal_with_fuel(crate::chunk::first_of, 3);
    reveal_with_fuel(trim_start, 3);
    reveal_with_fuel(trim_end, 3);
    reveal_with_fuel(hex_str_val, 3);
    assert(crate::chunk::first_of(l3, 59u8, 1) is None) by { assert(l3.subrange(1, 1).len() == 0); }
    assert(crate::chunk::first_of(l0, 59u8, 1) is None) by { assert(l0.subrange(1, 1).len() == 0); }
    assert(crate::chunk::hex_part(l3) == l3);
    assert(crate::chunk::hex_part(l0) == l0);
    assert(all_ascii(l3) && all_ascii(l0));
    assert(trim_bytes(l3) == l3);
    assert(trim_bytes(l0) == l0);
    assert(parse_hex(l3) == Some(3usize));
    assert(parse_hex(l0) == Some(0usize));
    assert(size_line(l3) == SizeLine::Data(3usize));
    assert(size_line(l0) == SizeLine::Last);
    assert forall|t: int| 0 <= t < toks.len() implies #[trigger] valid_at(toks, t) by {
        if t == 0 {} else if t == 1 {} else if t == 2 {} else if t == 3 {} else {}
    }
}
''')
