# src/error.rs
MODULE('error', 'src/error.rs', uses='''
use crate::*;
use crate::http::{Method, Version};
''')
ITEM('enum Error', derive_drop=['PartialEq', 'Eq'])
RAW('''
// N10: the derived PartialEq/Eq of Error (it has String fields, for which Verus has no structural
// equality) is replaced by an assumed spec: `==` is equality of the values.
impl PartialEq for Error {
    #[verifier::external_body]
    fn eq(&self, other: &Error) -> (r: bool) ensures r == (*self == *other) { unimplemented!() }
}
impl Eq for Error {}
''')
RAW('''
// `impl From<httparse::Error> for Error` (error.rs) builds HttpParseFail(value.to_string()); Display of
// httparse::Error is outside the verifier: assumed contract
impl From<crate::httparse::Error> for Error {
    #[verifier::external_body]
    fn from(value: crate::httparse::Error) -> (r: Self) ensures r is HttpParseFail { unimplemented!() }
}
''')
