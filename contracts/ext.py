# src/ext.rs
MODULE('ext', 'src/ext.rs', uses='''
use crate::*;
use crate::http::{HeaderName, HeaderValue, Method, StatusCode, Version};
use crate::error::Error;
''')
RAW('''
/// C17: methods defined for HTTP/1.0 and the additional ones of HTTP/1.1
pub open spec fn method_is_http10(m: Method) -> bool { m == Method::GET || m == Method::HEAD || m == Method::POST }
pub open spec fn method_is_http11(m: Method) -> bool {
    m == Method::PUT || m == Method::DELETE || m == Method::CONNECT || m == Method::OPTIONS || m == Method::TRACE || m == Method::PATCH
}
pub open spec fn method_needs_body(m: Method) -> bool { m == Method::POST || m == Method::PUT || m == Method::PATCH }
/// agreement of a result with its specification where no property names the error VARIANT: the same Ok value, or some
/// error - which one is the code's business - that is not the output-overflow signal of the head writer
pub open spec fn res_agree<T>(r: Result<T, Error>, spec: Result<T, Error>) -> bool {
    match spec { Ok(v) => r == Ok::<T, Error>(v), Err(_) => r is Err && !(r->Err_0 == Error::OutputOverflow) }
}
/// C17: the version / method check, as a function of its arguments
pub open spec fn spec_verify_version(m: Method, v: Version) -> Result<(), Error> {
    if v != Version::HTTP_10 && v != Version::HTTP_11 { Err(Error::UnsupportedVersion) }
    else if !(method_is_http10(m) || (v == Version::HTTP_11 && method_is_http11(m))) { Err(Error::MethodVersionMismatch(m, v)) }
    else { Ok(()) }
}
''')
ITEM('trait MethodExt')
IMPL('impl MethodExt for Method')
FN('is_http10', props=['C17'], ret='r', ensures=[('aux.is_http10', 'r == method_is_http10(*self)')])
FN('is_http11', props=['C17'], ret='r', ensures=[('aux.is_http11', 'r == method_is_http11(*self)')])
FN('need_request_body', props=['C17', 'C09', 'C15'], ret='r', ensures=[('C09/C15/C17.need_request_body', 'r == method_needs_body(*self)')])
FN('verify_version', props=['C17'], ret='r', ensures=[('C17.version_and_method', 'res_agree(r, spec_verify_version(*self, v))')])
END()
ITEM('trait StatusExt')
IMPL('impl StatusExt for StatusCode')
FN('is_redirect_retaining_status', props=['C15'], ret='r', ensures=[('C15.retaining_is_307_308', 'r == (self.0 == 307 || self.0 == 308)')])
END()
RAW('''
use crate::http::{HeaderMap, has_field, lower};
// N9: `headers.iter().has(key, value)` / `.has_expect_100()` (HeaderIterExt: `filter(|i| i.0 == key).any(|i| i.1 == value)`):
// is there a field with that name (names compare case-insensitively) whose value is exactly `value`
#[verifier::external_body]
pub fn headers_has(headers: &HeaderMap, key: &str, value: &str) -> (r: bool)
    ensures r == has_field(headers.entries(), lower(str_bytes(key)), str_bytes(value))
{ unimplemented!() }
''')
