# src/client/flow.rs : the typestate flow (C09 C10 C11 C13 C14 C15 C16 C01 C02 C05 C12)

MODULE('client::flow', 'src/client/flow.rs', uses='''
use crate::*;
use std::marker::PhantomData;
use crate::http::uri::Scheme;
use crate::http::{HeaderMap, HeaderName, HeaderValue, Method, Request, Response, StatusCode, Uri, Version, Hdr, has_field, last_value, lower};
use crate::body::{calculate_max_input, BodyMode, BodyReader, SenderMode};
use crate::ext::{MethodExt, StatusExt, headers_has, method_needs_body};
use crate::parser::try_parse_response;
use crate::util::ArrayVec;
use crate::error::Error;
use crate::client::holder::CallHolder;
use crate::client::amended::lit;
use crate::client::call::{Call, Phase, phase_ok, post_write_head, post_write_body, head_step, next_line};
use crate::client::call::state::{WithBody, WithoutBody};
use crate::client::amended::AmendedRequest;
use self::state::*;
''')

RAW('''
// `mod state`: the `flow_state!` macro of flow.rs expanded by hand (eight marker types + trait Named)
pub mod state {
    pub trait Named { fn name() -> &'static str; }
    pub struct Prepare(());
    pub struct SendRequest(());
    pub struct Await100(());
    pub struct SendBody(());
    pub struct RecvResponse(());
    pub struct RecvBody(());
    pub struct Redirect(());
    pub struct Cleanup(());
    impl Named for Prepare { #[verifier::external_body] fn name() -> &'static str { "Prepare" } }
    impl Named for SendRequest { #[verifier::external_body] fn name() -> &'static str { "SendRequest" } }
    impl Named for Await100 { #[verifier::external_body] fn name() -> &'static str { "Await100" } }
    impl Named for SendBody { #[verifier::external_body] fn name() -> &'static str { "SendBody" } }
    impl Named for RecvResponse { #[verifier::external_body] fn name() -> &'static str { "RecvResponse" } }
    impl Named for RecvBody { #[verifier::external_body] fn name() -> &'static str { "RecvBody" } }
    impl Named for Redirect { #[verifier::external_body] fn name() -> &'static str { "Redirect" } }
    impl Named for Cleanup { #[verifier::external_body] fn name() -> &'static str { "Cleanup" } }
}
''')
ITEM('struct Flow')
ITEM('struct Inner', derive_drop=['Debug'])
ITEM('enum CloseReason', derive_add=['Structural'])
ITEM('enum SendRequestResult')
ITEM('enum Await100Result')
ITEM('enum RecvResponseResult')
ITEM('enum RecvBodyResult')
ITEM('enum RedirectAuthHeaders', derive_add=['Structural'], rewrites=[('N10', '#[non_exhaustive]', '')])

RAW('''
/// C10: the close reasons a request carries from the start
pub open spec fn base_reasons(version: Version, headers: Seq<Hdr>) -> Seq<CloseReason> {
    (if version == Version::HTTP_10 { seq![CloseReason::Http10] } else { Seq::<CloseReason>::empty() })
    + (if has_field(headers, lit("connection"), lit("close")) { seq![CloseReason::ClientConnectionClose] } else { Seq::<CloseReason>::empty() })
}
pub open spec fn is_redirect_status(s: Option<StatusCode>) -> bool { s matches Some(c) && 300 <= c.0 <= 399 && c.0 != 304 }
''')

IMPL('impl<B> Inner<B>', raw='''
    pub open spec fn reasons(&self) -> Seq<CloseReason> { self.close_reason.view() }
    pub open spec fn bstate(&self) -> crate::client::call::BodyState { self.call.bstate() }
    /// facts shared by every state
    pub open spec fn wf_common(&self) -> bool { self.call.wf() && self.reasons().len() <= 5 }
    /// Prepare: nothing written or analysed yet
    pub open spec fn wf_prepare(&self) -> bool {
        &&& self.wf_sending() && !self.call.analyzed() && self.status is None && self.location is None
    }
    /// SendRequest (and Prepare): the call is one of the two sending variants, matching should_send_body
    pub open spec fn wf_sending(&self) -> bool {
        &&& self.wf_common() && self.reasons().len() <= 2 && self.status is None
        &&& (self.call is WithoutBody || self.call is WithBody)
        &&& (self.should_send_body <==> self.call is WithBody)
        &&& (self.call is WithBody ==> !(self.bstate().writer.mode is None))
        &&& (self.call is WithoutBody ==> self.bstate().writer.mode is None && self.bstate().writer.ended && !self.bstate().skip_method_body_check
                && !method_needs_body(self.call.req().request.spec_method()))
        &&& (self.bstate().phase is SendLine || self.bstate().phase is SendHeaders || self.bstate().phase is SendBody)
        &&& (if self.call.analyzed() { phase_ok(&self.call.req(), self.bstate().phase) } else { self.bstate().phase is SendLine })
        &&& self.bstate().reader is None
    }
    /// C02's quantifier: the request can name its host (absolute URI, or explicit Host header)
    pub open spec fn names_host(&self) -> bool {
        self.call.req().eff_uri().spec_host() is Some || crate::http::first_value(self.call.req().eff(), lit("host")) is Some
    }
    /// SendBody / Await100: head completely written, body writer ready
    pub open spec fn wf_body_pending(&self) -> bool {
        &&& self.wf_common() && self.status is None && self.call is WithBody && self.call.analyzed() && self.names_host()
        &&& self.bstate().phase is SendBody && !(self.bstate().writer.mode is None) && self.bstate().reader is None
        &&& phase_ok(&self.call.req(), self.bstate().phase)
    }
    pub open spec fn wf_await100(&self) -> bool {
        &&& self.wf_body_pending()
        &&& (if self.should_send_body { self.reasons().len() <= 2 } else { self.reasons().len() <= 3 && !self.await_100_continue })
    }
    pub open spec fn wf_send_body(&self) -> bool { self.wf_body_pending() && self.reasons().len() <= 2 && self.should_send_body }
    /// RecvResponse: until a (non-100) response arrived the reader is unset
    pub open spec fn wf_recv_response(&self) -> bool {
        &&& self.wf_common() && self.call is RecvResponse
        &&& (if self.bstate().reader is None { self.reasons().len() <= 3 } else { self.reasons().len() <= 4 && self.status is Some })
    }
    /// RecvBody / Redirect / Cleanup
    pub open spec fn wf_received(&self) -> bool {
        self.wf_common() && self.call is RecvBody && self.bstate().reader is Some && self.status is Some
    }
    pub open spec fn wf_redirect(&self) -> bool { self.wf_received() && is_redirect_status(self.status) }
    /// everything but the call is unchanged
    pub open spec fn same_facts(&self, post: &Self) -> bool {
        post.close_reason.view() == self.close_reason.view() && post.should_send_body == self.should_send_body
            && post.await_100_continue == self.await_100_continue && post.status == self.status && post.location == self.location
    }
''')
FN('is_redirect', props=['C15', 'C09'], ret='r', ensures=[('C09/C15.redirect_iff_3xx_not_304', 'r == is_redirect_status(self.status)')])
END()

IMPL('impl CloseReason')
FN('explain', props=['C10'], ret='r',
   ensures=[('aux.explain', 'str_bytes(r) == explain_bytes(*self)')])
END()
RAW('''
/// C10: the text given for each reason names that very condition
pub open spec fn explain_bytes(c: CloseReason) -> Seq<u8> {
    match c {
        CloseReason::Http10 => lit("version is http1.0"),
        CloseReason::ClientConnectionClose => lit("client sent Connection: close"),
        CloseReason::ServerConnectionClose => lit("server sent Connection: close"),
        CloseReason::Not100Continue => lit("got non-100 response before sending body"),
        CloseReason::CloseDelimitedBody => lit("response body is close delimited"),
    }
}
''')

IMPL('impl<B, S> Flow<B, S>')
FN('wrap', props=['C09'], ret='r', ensures=[('aux.wrap', 'r.inner == inner')])
FN('call', props=['C09'], ret='r', ensures=[('aux.Flow.call', '*r == self.inner.call')])
FN('call_mut', props=['C09'], ret='r',
   ensures=[('aux.Flow.call_mut', '*r == old(self).inner.call && *final(r) == final(self).inner.call && old(self).inner.same_facts(&final(self).inner)')])
END()

# ------------------------------------------------------------------------------------------------ PREPARE
IMPL('impl<B> Flow<B, Prepare>')
FN('new', props=['C09', 'C10', 'C17', 'C13'], ret='r',
   ensures=[
       ('C09/C11.new_flow_is_prepare', '''r is Ok && r->Ok_0.inner.wf_prepare() && r->Ok_0.inner.call.req().request.same_head(&request) && r->Ok_0.inner.call.req().uri is None
            && r->Ok_0.inner.call.req().headers.view().len() == 0 && r->Ok_0.inner.call.req().unset.view().len() == 0
            && r->Ok_0.inner.should_send_body == method_needs_body(request.spec_method())
            && r->Ok_0.inner.await_100_continue == has_field(request.spec_headers().entries(), lit("expect"), lit("100-continue"))'''),
       ('C10.reasons_at_construction', 'r is Ok ==> r->Ok_0.inner.reasons() == base_reasons(request.spec_version(), request.spec_headers().entries())'),
   ],
   head='proof { crate::client::call::axiom_literals2(); axiom_flow_literals(); }',
   rewrites=[
       ('N5', 'ArrayVec::from_fn(|_| CloseReason::Http10)', 'ArrayVec::from_fn(|_i: usize| CloseReason::Http10)'),
       ('N9', 'request.headers().iter().has("connection", "close")', 'headers_has(request.headers(), "connection", "close")'),
       ('N9', 'request.headers().iter().has_expect_100()', 'headers_has(request.headers(), "expect", "100-continue")'),
   ])
FN('method', props=['C15'], ret='r', requires=[('C09.wf', 'self.inner.wf_prepare()')], ensures=[('C15.method_of_flow', '*r == self.inner.call.req().request.spec_method()')])
FN('uri', props=['C14'], ret='r', requires=[('C09.wf', 'self.inner.wf_prepare()')], ensures=[('C14.uri_of_flow_is_effective', '*r == self.inner.call.req().eff_uri()')])
FN('version', props=['C17'], ret='r', requires=[('C09.wf', 'self.inner.wf_prepare()')], ensures=[('aux.Prepare.version', 'r == self.inner.call.req().request.spec_version()')])
FN('headers', props=['C09'], ret='r', requires=[('C09.wf', 'self.inner.wf_prepare()')], ensures=[('aux.Prepare.headers', '*r == self.inner.call.req().request.spec_headers()')])
FN('header', props=['C16', 'C09'], ret='r',
   requires=[('C09.wf', 'old(self).inner.wf_prepare()'), ('C16.quantifier_at_most_60_additions', 'old(self).inner.call.req().headers.view().len() + 3 <= crate::client::MAX_EXTRA_HEADERS')],
   ensures=[('C16.added_header_is_appended', '''final(self).inner.wf_prepare() && old(self).inner.same_facts(&final(self).inner) && old(self).inner.call.req().same_but_added(&final(self).inner.call.req())
            && match (crate::client::amended::key_bytes::<K>(key), crate::client::amended::val_bytes::<V>(value)) {
                (Some(n), Some(v)) => r is Ok && final(self).inner.call.req().added() == old(self).inner.call.req().added().push(Hdr { name: n, value: v }),
                _ => r is Err && final(self).inner.call.req().added() == old(self).inner.call.req().added() }''')],
   rewrites=[('N8', '<HeaderName as TryFrom<K>>::Error: Into<http::Error>,', '<HeaderName as TryFrom<K>>::Error: Into<crate::http::Error>,'),
             ('N8', '<HeaderValue as TryFrom<V>>::Error: Into<http::Error>,', '<HeaderValue as TryFrom<V>>::Error: Into<crate::http::Error>,')])
FN('send_body_despite_method', props=['C09'],
   requires=[('C09.wf', 'old(self).inner.wf_prepare()')],
   ensures=[('C09.send_body_despite_method', '''final(self).inner.wf_prepare() && final(self).inner.should_send_body && final(self).inner.call is WithBody
            && final(self).inner.call.req() == old(self).inner.call.req() && final(self).inner.reasons() == old(self).inner.reasons() && final(self).inner.await_100_continue == old(self).inner.await_100_continue''')])
FN('proceed', props=['C09'], ret='r',
   requires=[('C09.wf', 'self.inner.wf_prepare()')],
   ensures=[('C09.prepare_to_send_request', 'r.inner == self.inner && r.inner.wf_sending()')])
END()

RAW('''
#[verifier::external_body]
pub proof fn axiom_flow_literals()
    ensures lower(lit("expect")) == lit("expect"), lower(lit("connection")) == lit("connection"),
{}
''')

# ------------------------------------------------------------------------------------------------ SEND REQUEST
IMPL('impl<B> Flow<B, SendRequest>', raw='''
    pub open spec fn has_host_source(&self) -> bool { self.inner.names_host() }
''')
FN('write', props=['C02', 'C17', 'C01', 'C16', 'C09'], ret='r',
   requires=[('C09.wf', 'old(self).inner.wf_sending()'), ('C02.quantifier_request_names_its_host', 'old(self).has_host_source()')],
   ensures=[
       ('C09.wf_preserved', 'final(self).inner.wf_sending() && final(self).has_host_source() && old(self).inner.same_facts(&final(self).inner) && final(output).len() == old(output).len()'),
       ('C02.head_bytes', '''match r {
            Ok(n) => n <= old(output).len() && final(self).inner.call.analyzed() && (old(self).inner.call.analyzed() ==> final(self).inner.call.req() == old(self).inner.call.req())
                && head_step(&final(self).inner.call.req(), old(self).inner.bstate().phase, final(self).inner.bstate().phase, final(output)@.subrange(0, n as int)),
            Err(e) => final(self).inner.bstate().phase == old(self).inner.bstate().phase
                && (e == Error::OutputOverflow || (!old(self).inner.call.analyzed() && final(self).inner == old(self).inner)),
        }'''),
       ('C17.rejected_before_any_byte', '!old(self).inner.call.analyzed() && r is Err && !(r->Err_0 == Error::OutputOverflow) ==> final(self).inner == old(self).inner && final(output)@ == old(output)@'),
       ('C02.maximal', 'r is Ok && (final(self).inner.bstate().phase is SendLine || final(self).inner.bstate().phase is SendHeaders) ==> r->Ok_0 + next_line(&final(self).inner.call.req(), final(self).inner.bstate().phase).len() > old(output).len()'),
       ('C02.flow_write_after_complete_emits_nothing', 'old(self).inner.call.analyzed() && old(self).inner.bstate().phase is SendBody ==> r == Ok::<usize, Error>(0usize) && final(self).inner == old(self).inner'),
   ],
   rewrites=[('N5', 'v.write(&[], output).map(|r| r.1)', 'v.write(&[], output).map(|r: (usize, usize)| -> (n: usize) ensures n == r.1 { r.1 })')],
   )
FN('method', props=['C15'], ret='r', requires=[('C09.wf', 'self.inner.wf_sending()')], ensures=[('aux.SendRequest.method', '*r == self.inner.call.req().request.spec_method()')])
FN('uri', props=['C14'], ret='r', requires=[('C09.wf', 'self.inner.wf_sending()')], ensures=[('aux.SendRequest.uri', '*r == self.inner.call.req().eff_uri()')])
FN('version', props=['C17'], ret='r', requires=[('C09.wf', 'self.inner.wf_sending()')], ensures=[('aux.SendRequest.version', 'r == self.inner.call.req().request.spec_version()')])
FN('can_proceed', props=['C09', 'C02'], ret='r',
   requires=[('C09.wf', 'self.inner.wf_sending()')],
   ensures=[('C09.can_proceed_iff_head_complete', 'r == (self.inner.bstate().phase is SendBody)')])
FN('proceed', props=['C09', 'C11'], ret='r', mutself=True,
   requires=[('C09.wf', 'self.inner.wf_sending()'), ('C02.quantifier_request_names_its_host', 'self.inner.names_host()')],
   ensures=[
       ('C09.proceed_iff_can_proceed', '(r is Ok && r->Ok_0 is None) <==> !(self.inner.bstate().phase is SendBody)'),
       ('C09/C11.edge_after_head', '''self.inner.bstate().phase is SendBody ==> match r {
            Ok(Some(SendRequestResult::Await100(f))) => self.inner.should_send_body && self.inner.await_100_continue && f.inner == self.inner && f.inner.wf_await100(),
            Ok(Some(SendRequestResult::SendBody(f))) => self.inner.should_send_body && !self.inner.await_100_continue && f.inner == self.inner && f.inner.wf_send_body(),
            Ok(Some(SendRequestResult::RecvResponse(f))) => !self.inner.should_send_body && f.inner.wf_recv_response() && self.inner.same_facts(&f.inner)
                && f.inner.call.req() == self.inner.call.req() && f.inner.bstate().reader is None,
            Ok(None) => false,
            Err(_) => false,
        }'''),
   ],
   )
END()

# ------------------------------------------------------------------------------------------------ AWAIT 100
RAW('''
use crate::httparse::{Outcome, parse_response};
use crate::parser::spec_try_parse_response;
/// C10/C11: the postcondition of Flow<Await100>::try_read_100 as a predicate (hypothesis of head_lemmas::lemma_c11_*)
pub open spec fn c11_handshake<B>(pre: &Inner<B>, post: &Inner<B>, input: Seq<u8>, r: Result<usize, Error>) -> bool {
    match parse_response(input, 0) {
            // input ends inside the status line or right after it: decide nothing, consume nothing
            Outcome::Partial(_) => r == Ok::<usize, Error>(0usize) && post == pre,
            Outcome::Complete(n, p) =>
                if !(p.version is Some && p.version->Some_0 <= 1 && p.code is Some && 100 <= p.code->Some_0 <= 999) { r is Err && !post.await_100_continue && post.reasons() == pre.reasons() && post.should_send_body }
                else if p.code->Some_0 == 100 {
                    // a complete bare 100: consumed exactly, the body is sent
                    r == Ok::<usize, Error>(n as usize) && !post.await_100_continue && post.should_send_body && post.reasons() == pre.reasons()
                } else {
                    // any other response without fields: consume nothing, never send the body, connection must close
                    r == Ok::<usize, Error>(0usize) && !post.await_100_continue && !post.should_send_body && post.reasons() == pre.reasons().push(CloseReason::Not100Continue)
                },
            Outcome::Err(e) =>
                if e == crate::httparse::Error::TooManyHeaders {
                    // a response with fields: it is not a 100
                    r == Ok::<usize, Error>(0usize) && !post.await_100_continue && !post.should_send_body && post.reasons() == pre.reasons().push(CloseReason::Not100Continue)
                } else { r is Err && !post.await_100_continue && post.should_send_body && post.reasons() == pre.reasons() },
        }
}
''')
IMPL('impl<B> Flow<B, Await100>')
FN('try_read_100', props=['C11', 'C10', 'C12', 'C09', 'C01'], ret='r',
   requires=[('C09.wf', 'old(self).inner.wf_await100()'),
             ('C09.documented_still_awaiting', 'old(self).inner.await_100_continue && old(self).inner.should_send_body')],
   ensures=[
       ('C09.wf_preserved', 'final(self).inner.wf_await100() && final(self).inner.call == old(self).inner.call && final(self).inner.status == old(self).inner.status && final(self).inner.location == old(self).inner.location'),
       ('C12.counts', 'r is Ok ==> r->Ok_0 <= input.len()'),
       ('C10/C11.handshake_exact', 'c11_handshake(&old(self).inner, &final(self).inner, input@, r)'),
   ],
   head='broadcast use crate::httparse::axiom_outcome_ok;',
   )
FN('can_keep_await_100', props=['C11'], ret='r', ensures=[('aux.can_keep_await_100', 'r == self.inner.await_100_continue')])
FN('proceed', props=['C09', 'C11', 'C12'], ret='r', mutself=True,
   requires=[('C09.wf', 'self.inner.wf_await100()')],
   ensures=[('C09/C11.body_sent_iff_not_refused', '''match r {
            Ok(Await100Result::SendBody(f)) => self.inner.should_send_body && f.inner == self.inner && f.inner.wf_send_body(),
            Ok(Await100Result::RecvResponse(f)) => !self.inner.should_send_body && f.inner.wf_recv_response() && self.inner.same_facts(&f.inner) && f.inner.call.req() == self.inner.call.req() && f.inner.bstate().reader is None,
            Err(_) => false }''')],
   )
END()

# ------------------------------------------------------------------------------------------------ SEND BODY
IMPL('impl<B> Flow<B, SendBody>')
FN('write', props=['C03', 'C04', 'C18', 'C19', 'C01', 'C09'], ret='r',
   requires=[('C09.wf', 'old(self).inner.wf_send_body()')],
   ensures=[
       ('C09.wf_preserved', 'final(self).inner.wf_send_body() && old(self).inner.same_facts(&final(self).inner) && final(output).len() == old(output).len() && final(self).inner.call.req() == old(self).inner.call.req()'),
       ('C03/C04/C18/C19.body_bytes', 'post_write_body(&old(self).inner.call->WithBody_0, &final(self).inner.call->WithBody_0, input@, old(output).len() as nat, |n: nat| final(output)@.subrange(0, n as int), r)'),
   ])
FN('consume_direct_write', props=['C04', 'C09'], ret='r',
   requires=[('C09.wf', 'old(self).inner.wf_send_body()')],
   ensures=[
       ('C09.wf_preserved', 'final(self).inner.wf_send_body() && old(self).inner.same_facts(&final(self).inner)'),
       ('C04.direct_write_accounting', '''match old(self).inner.bstate().writer.mode {
            SenderMode::Sized(left) => if amount as u64 > left { r is Err && final(self).inner == old(self).inner }
                else { r is Ok && final(self).inner.bstate().writer.mode == SenderMode::Sized((left - amount) as u64) && final(self).inner.bstate().writer.ended == (old(self).inner.bstate().writer.ended || left == amount as u64) },
            _ => r is Err && final(self).inner == old(self).inner }'''),
   ])
FN('calculate_max_input', props=['C18', 'C01'], ret='r',
   requires=[('C09.wf', 'old(self).inner.wf_send_body()')],
   ensures=[
       ('C01.query_is_read_only', 'final(self).inner == old(self).inner'),
       ('C18.sized_identity_and_chunked_closed_form', 'r == (if old(self).inner.bstate().writer.mode is Chunked { crate::body::spec_max_input(output_len as nat) as usize } else { output_len })'),
       ('C18.le_n', 'r <= output_len'),
   ],
   head='proof { crate::body::lemma_max_input_le_and_monotone(output_len as nat, output_len as nat); }')
FN('is_chunked', props=['C03', 'C01'], ret='r',
   requires=[('C09.wf', 'old(self).inner.wf_send_body()')],
   ensures=[('C01.query_is_read_only', 'final(self).inner == old(self).inner && r == (old(self).inner.bstate().writer.mode is Chunked)')])
FN('can_proceed', props=['C09', 'C03', 'C04'], ret='r',
   requires=[('C09.wf', 'self.inner.wf_send_body()')],
   ensures=[('C09.can_proceed_iff_body_finished', 'r == self.inner.bstate().writer.ended')])
FN('proceed', props=['C09'], ret='r', mutself=True,
   requires=[('C09.wf', 'self.inner.wf_send_body()')],
   ensures=[('C09.proceed_iff_can_proceed', '''if self.inner.bstate().writer.ended {
                r is Some && r->Some_0.inner.wf_recv_response() && self.inner.same_facts(&r->Some_0.inner) && r->Some_0.inner.call.req() == self.inner.call.req() && r->Some_0.inner.bstate().reader is None
            } else { r is None }''')])
END()

# ------------------------------------------------------------------------------------------------ RECV RESPONSE
RAW('''
use crate::client::call::{post_response, text_first, response_framing};
use crate::body::{Framing, reader_framing};
''')
IMPL('impl<B> Flow<B, RecvResponse>')
FN('try_response', props=['C05', 'C10', 'C11', 'C14', 'C12', 'C09', 'C01', 'C06'], ret='r',
   requires=[('C09.wf', 'old(self).inner.wf_recv_response()'),
             ('C09.documented_no_response_yet', 'old(self).inner.bstate().reader is None')],
   ensures=[
       ('C09.wf_preserved', 'final(self).inner.wf_recv_response() && final(self).inner.should_send_body == old(self).inner.should_send_body && final(self).inner.call.req() == old(self).inner.call.req()'),
       ('C12.counts', 'r is Ok ==> r->Ok_0.0 <= input.len()'),
       ('C12.error_changes_nothing', 'r is Err ==> final(self).inner == old(self).inner'),
       ('C05.need_more_data_consumes_nothing', 'r is Ok && r->Ok_0.1 is None && final(self).inner.await_100_continue == old(self).inner.await_100_continue ==> r->Ok_0.0 == 0 && final(self).inner == old(self).inner'),
       ('C11.late_100_skipped_once', '''r is Ok && r->Ok_0.1 is None && final(self).inner.await_100_continue != old(self).inner.await_100_continue ==> old(self).inner.await_100_continue && !final(self).inner.await_100_continue
            && final(self).inner.call == old(self).inner.call && final(self).inner.reasons() == old(self).inner.reasons() && final(self).inner.status == old(self).inner.status'''),
       ('C11.unawaited_100_is_not_skipped', 'r is Ok && r->Ok_0.1 is Some && r->Ok_0.1->Some_0.spec_status().0 == 100 ==> !old(self).inner.await_100_continue'),
       ('C14.last_location_wins', '''r is Ok && r->Ok_0.1 is Some ==> final(self).inner.status == Some(r->Ok_0.1->Some_0.spec_status())
            && match last_value(r->Ok_0.1->Some_0.spec_headers().entries(), lit("location")) { Some(v) => final(self).inner.location is Some && final(self).inner.location->Some_0.view() == v, None => final(self).inner.location is None }'''),
       ('C10.server_connection_close', '''r is Ok && r->Ok_0.1 is Some ==> final(self).inner.await_100_continue == old(self).inner.await_100_continue && final(self).inner.reasons() ==
            (if has_field(r->Ok_0.1->Some_0.spec_headers().entries(), lit("connection"), lit("close")) { old(self).inner.reasons().push(CloseReason::ServerConnectionClose) } else { old(self).inner.reasons() })'''),
       ('C06.reader_set_by_the_rules', 'r is Ok && r->Ok_0.1 is Some ==> post_response(&old(self).inner.call->RecvResponse_0, &final(self).inner.call->RecvResponse_0, &r->Ok_0.1->Some_0)'),
   ],
   head='proof { crate::client::call::axiom_literals2(); axiom_flow_literals(); }',
   rewrites=[
       ('N9', '''response
            .headers()
            .get_all("location")
            .into_iter()
            .last()
            .cloned()''', 'response.headers().last_value_of("location")'),
       ('N9', 'response.headers().iter().has("connection", "close")', 'headers_has(response.headers(), "connection", "close")'),
   ])
FN('can_proceed', props=['C09', 'C05', 'C12'], ret='r',
   requires=[('C09.wf', 'self.inner.wf_recv_response()')],
   ensures=[('C09.can_proceed_iff_response_received', 'r == (self.inner.bstate().reader is Some)')])
FN('proceed', props=['C09', 'C06', 'C08', 'C10', 'C15', 'C12'], ret='r', mutself=True,
   requires=[('C09.wf', 'self.inner.wf_recv_response()')],
   ensures=[
       ('C09.proceed_iff_can_proceed', 'r is Some <==> self.inner.bstate().reader is Some'),
       ('C06/C08/C09/C10/C15.successor_state', '''self.inner.bstate().reader matches Some(rd) ==> ({
            let need_body = !(rd is NoBody || (rd is LengthDelimited && rd->LengthDelimited_0 == 0));
            match r {
                Some(RecvResponseResult::RecvBody(f)) => need_body && f.inner.wf_received() && f.inner.bstate().reader == Some(rd) && f.inner.status == self.inner.status && f.inner.location == self.inner.location
                    && f.inner.call.req() == self.inner.call.req()
                    && f.inner.reasons() == (if rd is CloseDelimited { self.inner.reasons().push(CloseReason::CloseDelimitedBody) } else { self.inner.reasons() }),
                Some(RecvResponseResult::Redirect(f)) => !need_body && is_redirect_status(self.inner.status) && f.inner.wf_redirect() && self.inner.same_facts(&f.inner) && f.inner.call.req() == self.inner.call.req(),
                Some(RecvResponseResult::Cleanup(f)) => !need_body && !is_redirect_status(self.inner.status) && f.inner.wf_received() && self.inner.same_facts(&f.inner),
                None => false,
            } })'''),
   ])
END()

# ------------------------------------------------------------------------------------------------ RECV BODY
IMPL('impl<B> Flow<B, RecvBody>')
FN('read', props=['C07', 'C08', 'C12', 'C01', 'C09'], ret='r',
   requires=[('C09.wf', 'old(self).inner.wf_received()')],
   ensures=[
       ('C09.wf_preserved', 'final(self).inner.wf_received() && old(self).inner.same_facts(&final(self).inner) && final(output).len() == old(output).len() && final(self).inner.call.req() == old(self).inner.call.req()'),
       ('C12.counts', 'r is Ok ==> r->Ok_0.0 <= input.len() && r->Ok_0.1 <= old(output).len()'),
       ('C12.copy_in_order', 'r is Ok ==> crate::chunk::is_subseq(final(output)@.subrange(0, r->Ok_0.1 as int), input@.subrange(0, r->Ok_0.0 as int))'),
       ('C08.length_delimited', '''old(self).inner.bstate().reader->Some_0 is LengthDelimited && old(self).inner.bstate().reader->Some_0->LengthDelimited_0 > 0 ==>
            BodyReader::post_read_limit(old(self).inner.bstate().reader->Some_0, final(self).inner.bstate().reader->Some_0, input@, old(output)@, final(output)@, r)'''),
       ('C08.close_delimited', '''old(self).inner.bstate().reader->Some_0 is CloseDelimited ==>
            BodyReader::post_read_unlimit(old(self).inner.bstate().reader->Some_0, final(self).inner.bstate().reader->Some_0, input@, old(output)@, final(output)@, r)'''),
       ('C07.chunked', '''old(self).inner.bstate().reader->Some_0 is Chunked ==>
            BodyReader::post_read_chunked(old(self).inner.bstate().reader->Some_0, final(self).inner.bstate().reader->Some_0, input@, old(output).len() as int, final(output)@, old(self).inner.bstate().stop_on_chunk_boundary, r)'''),
       ('C08.ended_body_reads_nothing', '''({ let rd = old(self).inner.bstate().reader->Some_0;
            (rd is NoBody || (rd is LengthDelimited && rd->LengthDelimited_0 == 0) || (rd is Chunked && rd->Chunked_0 is Ended)) ==> r == Ok::<(usize, usize), Error>((0usize, 0usize)) && final(self).inner.bstate().reader == old(self).inner.bstate().reader })'''),
   ])
FN('stop_on_chunk_boundary', props=['C07', 'C09'],
   requires=[('C09.wf', 'old(self).inner.wf_received()')],
   ensures=[('C09.wf_preserved', 'final(self).inner.wf_received() && old(self).inner.same_facts(&final(self).inner) && final(self).inner.bstate().stop_on_chunk_boundary == enabled && final(self).inner.bstate().reader == old(self).inner.bstate().reader')])
FN('is_on_chunk_boundary', props=['C07', 'C01'], ret='r',
   requires=[('C09.wf', 'self.inner.wf_received()')],
   ensures=[('aux.Flow.is_on_chunk_boundary', 'self.inner.bstate().reader->Some_0 is Chunked ==> r == (self.inner.bstate().reader->Some_0->Chunked_0 is Size)')])
FN('body_mode', props=['C06', 'C08'], ret='r',
   requires=[('C09.wf', 'self.inner.wf_received()')],
   ensures=[('C06.body_mode', '''match self.inner.bstate().reader->Some_0 { BodyReader::NoBody => r == BodyMode::NoBody, BodyReader::LengthDelimited(v) => r == BodyMode::LengthDelimited(v),
            BodyReader::Chunked(_) => r == BodyMode::Chunked, BodyReader::CloseDelimited => r == BodyMode::CloseDelimited }''')])
FN('can_proceed', props=['C09', 'C07', 'C08', 'C12'], ret='r',
   requires=[('C09.wf', 'self.inner.wf_received()')],
   ensures=[('C07/C08/C09.can_proceed_iff_complete_or_close_delimited', '''r == match self.inner.bstate().reader->Some_0 { BodyReader::NoBody => true, BodyReader::LengthDelimited(v) => v == 0,
            BodyReader::Chunked(d) => d is Ended, BodyReader::CloseDelimited => true }''')])
FN('proceed', props=['C09', 'C15', 'C12'], ret='r',
   requires=[('C09.wf', 'self.inner.wf_received()')],
   ensures=[('C09/C15.proceed_iff_can_proceed_and_redirect_iff_3xx', '''({
            let ready = match self.inner.bstate().reader->Some_0 { BodyReader::NoBody => true, BodyReader::LengthDelimited(v) => v == 0, BodyReader::Chunked(d) => d is Ended, BodyReader::CloseDelimited => true };
            match r {
                None => !ready,
                Some(RecvBodyResult::Redirect(f)) => ready && is_redirect_status(self.inner.status) && f.inner == self.inner && f.inner.wf_redirect(),
                Some(RecvBodyResult::Cleanup(f)) => ready && !is_redirect_status(self.inner.status) && f.inner == self.inner && f.inner.wf_received(),
            } })''')])
END()

# ------------------------------------------------------------------------------------------------ REDIRECT
RAW('''
use crate::client::amended::{key_bytes, is_text};
use crate::ext::method_needs_body as needs_body;
/// C15, written from the statement: the method of the redirected request; None = the redirect is not followed
pub open spec fn redirect_method(status: u16, m: Method) -> Option<Method> {
    if status == 307 || status == 308 {
        if needs_body(m) || m == Method::DELETE { None } else { Some(m) }
    } else {
        if m == Method::GET || m == Method::HEAD { Some(m) } else { Some(Method::GET) }
    }
}
/// C13: may the Authorization header of the ORIGINAL request be kept for the target
pub open spec fn may_keep_auth(policy: RedirectAuthHeaders, orig: Uri, target: Uri) -> bool {
    policy == RedirectAuthHeaders::SameHost && orig.spec_host() == target.spec_host()
        && (orig.spec_scheme() == target.spec_scheme() || target.spec_scheme() == Some(Scheme::https_bytes()))
}
/// C13/C14: names of the inherited headers suppressed on the redirected request
pub open spec fn redirect_unset(keep_auth: bool) -> Seq<Seq<u8>> {
    (if keep_auth { Seq::<Seq<u8>>::empty() } else { seq![lit("authorization")] }) + seq![lit("cookie"), lit("content-length"), lit("host")]
}
/// the target of the redirect: RFC 3986 resolution of the Location text against the CURRENT effective URI (None = error)
pub open spec fn redirect_target(current: Uri, location: Seq<u8>) -> Option<Uri> {
    match crate::url::spec_url_parse(current.spec_text()) {
        None => None,
        Some(base) => match crate::url::rfc3986_resolve(base, location) { None => None, Some(t) => parse_any::<Uri>(t) },
    }
}
#[verifier::external_body]
pub proof fn axiom_redirect_literals()
    ensures
        crate::http::valid_name(lower(lit("authorization"))) && lower(lit("authorization")) == lit("authorization"),
        crate::http::valid_name(lower(lit("cookie"))) && lower(lit("cookie")) == lit("cookie"),
        crate::http::valid_name(lower(lit("content-length"))) && lower(lit("content-length")) == lit("content-length"),
        crate::http::valid_name(lower(lit("host"))) && lower(lit("host")) == lit("host"),
{}
// N9: Error::BadLocationHeader(String::from_utf8_lossy(header.as_bytes()).to_string())
#[verifier::external_body]
pub fn bad_location_bytes(b: &[u8]) -> (r: Error) ensures r is BadLocationHeader { unimplemented!() }
''')
IMPL('impl<B> Flow<B, Redirect>')
FN('as_new_flow', props=['C13', 'C14', 'C15', 'C16', 'C09', 'C12'], ret='r',
   requires=[('C09.wf', 'old(self).inner.wf_redirect()')],
   ensures=[
       ('C09.redirect_flow_stays_usable', 'final(self).inner.wf_redirect()'),
       ('C14.location_errors', '''match old(self).inner.location {
            None => r is Err,
            Some(l) => !is_text(l.view()) || redirect_target(old(self).inner.call.req().eff_uri(), l.view()) is None ==> r is Err && r->Err_0 is BadLocationHeader }'''),
       ('C12.error_changes_nothing', 'r is Err ==> final(self).inner == old(self).inner'),
       ('C15.method_table', '''old(self).inner.location matches Some(l) && is_text(l.view()) && redirect_target(old(self).inner.call.req().eff_uri(), l.view()) is Some ==>
            match redirect_method(old(self).inner.status->Some_0.0, old(self).inner.call.req().request.spec_method()) {
                None => r is Ok && r->Ok_0 is None && final(self).inner == old(self).inner,
                Some(m) => r is Ok && r->Ok_0 is Some && r->Ok_0->Some_0.inner.call.req().request.spec_method() == m }'''),
       ('C13/C14/C16.next_request', '''r is Ok && r->Ok_0 is Some ==> ({
            let next = r->Ok_0->Some_0.inner;
            let prev = old(self).inner.call.req();
            let target = redirect_target(prev.eff_uri(), old(self).inner.location->Some_0.view())->Some_0;
            &&& next.wf_prepare()
            // C13: rebuilt from the original request (same version, headers, original uri), nothing the caller added is carried over
            &&& next.call.req().request.spec_version() == prev.request.spec_version() && next.call.req().request.spec_headers() == prev.request.spec_headers()
            &&& next.call.req().request.spec_uri() == prev.request.spec_uri() && next.call.req().added().len() == 0
            // C14: the target overrides the uri
            &&& next.call.req().uri == Some(target)
            // C13: inherited cookie / content-length / host are always suppressed, authorization unless the policy allows it for the ORIGINAL uri
            //      (C13 is an "only if": suppressing an Authorization that MAY be kept is allowed, keeping one that may not is not)
            &&& (next.call.req().unset_names() == redirect_unset(false)
                 || (may_keep_auth(redirect_auth_headers, prev.request.spec_uri(), target) && next.call.req().unset_names() == redirect_unset(true)))
            &&& next.reasons() == base_reasons(prev.request.spec_version(), prev.request.spec_headers().entries())
        })'''),
   ],
   head='broadcast use crate::client::amended::axiom_key_val_bytes; proof { axiom_redirect_literals(); crate::client::call::axiom_literals2(); axiom_flow_literals(); }',
   rewrites=[
       ('N9', '''Error::BadLocationHeader(
                    String::from_utf8_lossy(header.as_bytes()).to_string(),
                )''', 'bad_location_bytes(header.as_bytes())'),
       ('N16', 'matches!(*method, Method::GET | Method::HEAD)', '(method == Method::GET || method == Method::HEAD)'),
   ],
   )
FN('status', props=['C15', 'C09'], ret='r',
   requires=[('C09.wf', 'self.inner.wf_redirect()')],
   ensures=[('C15.redirect_reports_its_status', 'Some(r) == self.inner.status && 300 <= r.0 <= 399 && r.0 != 304')])
FN('must_close_connection', props=['C10'], ret='r',
   ensures=[('C10.must_close_iff_a_reason', 'r == (self.inner.reasons().len() > 0)')])
FN('close_reason', props=['C10'], ret='r',
   ensures=[('C10.reason_given_iff_must_close', '''if self.inner.reasons().len() > 0 { r is Some && exists|i: int| 0 <= i < self.inner.reasons().len() && str_bytes(r->Some_0) == explain_bytes(#[trigger] self.inner.reasons()[i]) } else { r is None }''')],
   rewrites=[('N9', 'self.inner.close_reason.first().map(|s| s.explain())', 'first_reason_text(&self.inner.close_reason)')])
FN('proceed', props=['C09', 'C10'], ret='r',
   requires=[('C09.wf', 'self.inner.wf_redirect()')],
   ensures=[('C09.redirect_to_cleanup', 'r.inner == self.inner && r.inner.wf_received()')])
END()

FN('can_redirect_auth_header', props=['C13'], ret='r',
   # C13 says "present ONLY IF ..": the function may answer false more often (say, also require the same port), never true more often
   ensures=[('C13.keep_auth_only_if_same_host_and_not_downgraded', 'r ==> (prev.spec_host() == next.spec_host() && (prev.spec_scheme() == next.spec_scheme() || next.spec_scheme() == Some(Scheme::https_bytes())))')],
   rewrites=[
       ('N5', 'prev.authority().map(|a| a.host())', "prev.authority().map(|a: &crate::http::uri::Authority| -> (s: &str) ensures str_bytes(s) == a.host_view() { a.host() })"),
       ('N5', 'next.authority().map(|a| a.host())', "next.authority().map(|a: &crate::http::uri::Authority| -> (s: &str) ensures str_bytes(s) == a.host_view() { a.host() })"),
       # N9: `==` on Option<&str> / Option<&Scheme> (PartialEq of foreign types) -> assumed-contract helpers, operand by operand;
       # the boolean structure of the decision stays exactly as the source has it
       ('N9~', 'IDENT == Some(&Scheme::HTTPS)', r'crate::http::uri::opt_scheme_eq(\1, Some(Scheme::https()))', '*'),
       ('N9~', 'host_IDENT == host_IDENT', r'crate::http::uri::opt_str_eq(host_\1, host_\2)', '*'),
       ('N9~', 'scheme_IDENT == scheme_IDENT', r'crate::http::uri::opt_scheme_eq(scheme_\1, scheme_\2)', '*'),
   ])

RAW('''
// N9: `close_reason.first().map(|s| s.explain())` (slice::first through Deref, Option::map with a method closure)
pub fn first_reason_text<const N: usize>(reasons: &ArrayVec<CloseReason, N>) -> (r: Option<&'static str>)
    ensures if reasons.view().len() > 0 { r is Some && str_bytes(r->Some_0) == explain_bytes(reasons.view()[0]) } else { r is None }
{
    let s: &[CloseReason] = &*reasons;
    if s.len() > 0 { Some(s[0].explain()) } else { None }
}
''')

# ------------------------------------------------------------------------------------------------ CLEANUP
IMPL('impl<B> Flow<B, Cleanup>')
FN('must_close_connection', props=['C10'], ret='r',
   ensures=[('C10.must_close_iff_a_reason', 'r == (self.inner.reasons().len() > 0)')])
FN('close_reason', props=['C10'], ret='r',
   ensures=[('C10.reason_given_iff_must_close', '''if self.inner.reasons().len() > 0 { r is Some && exists|i: int| 0 <= i < self.inner.reasons().len() && str_bytes(r->Some_0) == explain_bytes(#[trigger] self.inner.reasons()[i]) } else { r is None }''')],
   rewrites=[('N9', 'self.inner.close_reason.first().map(|s| s.explain())', 'first_reason_text(&self.inner.close_reason)')])
END()
