# module `head_lemmas`: the C05 / C20 / C11 property statements over WELL-FORMED heads, derived from
#   (a) the verified exact-mapping contracts of the parsers / try_response / try_read_100 (taken as hypotheses, by name), and
#   (b) the ASSUMED axioms on httparse (preamble/20_httparse.rs: axiom_wellformed_response, axiom_wellformed_response_prefix)
# written in /verif, proved by Verus.  What stays assumed is exactly (b); the bounded conformance twin exercises it.
MODULE('head_lemmas', 'src/lib.rs', uses='''
use crate::*;
use crate::http::{Hdr, lower, valid_name, valid_value, hdr_multiset_order, by_name, Response, StatusCode, Version};
use crate::httparse::{Head, Field, PField, Parsed, Outcome, parse_response, wf_head, wf_field, render_head, render_status_line, render_fields, render_field, parsed_fields,
    axiom_wellformed_response, axiom_wellformed_response_prefix, ReqHead, wf_req_head, render_req_head, parse_request, axiom_wellformed_request, axiom_wellformed_request_prefix};
use crate::parser::{build_fields, nonempty_prefix, response_is, version_of, spec_try_parse_response, spec_try_parse_partial, lemma_nonempty_prefix_le};
use crate::parser::{spec_try_parse_request, request_is};
use crate::client::call::{c05_complete, c05_error, c05_prefix, partial_redirect_hack, text_first};
use crate::client::MAX_RESPONSE_HEADERS;
use crate::client::flow::{Inner, CloseReason, c11_handshake};
use crate::body::framing;
use crate::client::amended::lit;
use crate::http::{has_name, lemma_has_name_by_name};
use crate::http::{Method, Request};
use crate::error::Error;
''')

RAW('''
/// every field name is shorter than 64 KiB (the `http` crate's limit; httparse has none)
pub open spec fn short_names(h: Head) -> bool { forall|i: int| 0 <= i < h.fields.len() ==> (#[trigger] h.fields[i]).name.len() < 65536 }
/// the fields a response carries for a head: names lower-cased, values with the optional white space stripped, in order
pub open spec fn expected(fs: Seq<Field>) -> Seq<Hdr> { Seq::new(fs.len(), |i: int| Hdr { name: lower(fs[i].name), value: fs[i].value }) }
/// the response is exactly the head: version, status, and all fields (repeated names keep their order)
pub open spec fn response_of_head(r: Response<()>, h: Head, nfields: int) -> bool {
    &&& r.spec_version() == version_of(h.minor)
    &&& r.spec_status() == StatusCode(h.code)
    &&& hdr_multiset_order(r.spec_headers().entries(), expected(h.fields).subrange(0, nfields))
}
''')

PROOF('lemma_build_parsed', ['C05', 'C20'], '''
/// the header builder accepts every field of a well-formed head and keeps name (lower-cased), value and order
pub proof fn lemma_build_parsed(fs: Seq<Field>, k: int)
    requires 0 <= k <= fs.len(), forall|i: int| 0 <= i < fs.len() ==> wf_field(#[trigger] fs[i]) && fs[i].name.len() < 65536
    ensures build_fields(parsed_fields(fs), k) == Ok::<Seq<Hdr>, ()>(expected(fs).subrange(0, k))
    decreases k
{
    if k == 0 {
        assert(expected(fs).subrange(0, 0) =~= Seq::<Hdr>::empty());
    } else {
        lemma_build_parsed(fs, k - 1);
        assert(wf_field(fs[k - 1]));
        assert(parsed_fields(fs)[k - 1] == PField { name: fs[k - 1].name, value: fs[k - 1].value });
        assert(expected(fs).subrange(0, k) =~= expected(fs).subrange(0, k - 1).push(expected(fs)[k - 1]));
    }
}
/// the same for a prefix of the fields (what a Partial outcome reports)
pub proof fn lemma_build_parsed_prefix(fs: Seq<Field>, j: int, k: int)
    requires 0 <= k <= j <= fs.len(), forall|i: int| 0 <= i < fs.len() ==> wf_field(#[trigger] fs[i]) && fs[i].name.len() < 65536
    ensures build_fields(parsed_fields(fs.subrange(0, j)), k) == Ok::<Seq<Hdr>, ()>(expected(fs).subrange(0, k))
{
    let sub = fs.subrange(0, j);
    assert forall|i: int| 0 <= i < sub.len() implies wf_field(#[trigger] sub[i]) && sub[i].name.len() < 65536 by { assert(sub[i] == fs[i]); }
    lemma_build_parsed(sub, k);
    assert(expected(sub).subrange(0, k) =~= expected(fs).subrange(0, k));
}
/// rendering a longer prefix of the fields is never shorter
pub proof fn lemma_render_fields_monotone(fs: Seq<Field>, m: int, j: int)
    requires 0 <= m <= j <= fs.len()
    ensures render_fields(fs.subrange(0, m)).len() <= render_fields(fs.subrange(0, j)).len()
    decreases j - m
{
    if m < j {
        lemma_render_fields_monotone(fs, m, j - 1);
        assert(fs.subrange(0, j).drop_last() =~= fs.subrange(0, j - 1));
    }
}
''')

PROOF('lemma_c20_response_parser', ['C05', 'C20'], '''
/// C20 (complete response parser): for ANY well-formed head followed by ANY bytes the parser returns the head's status,
/// version and all fields together with exactly the head's length; a too-many-headers error exactly when the head has
/// more fields than the limit.  Hypothesis = the verified postcondition of parser::try_parse_response.
pub proof fn lemma_c20_response_parser(h: Head, rest: Seq<u8>, cap: nat, r: Result<Option<(usize, Response<()>)>, Error>)
    requires wf_head(h), short_names(h),
        spec_try_parse_response(parse_response(render_head(h) + rest, cap), r),
    ensures
        /*@OBL:C05/C20.wellformed_head_is_returned_exactly*/ h.fields.len() <= cap ==> (r is Ok && r->Ok_0 is Some && r->Ok_0->Some_0.0 == render_head(h).len()
            && response_of_head(r->Ok_0->Some_0.1, h, h.fields.len() as int)),
        /*@OBL:C05/C20.too_many_fields_rejected*/ h.fields.len() > cap ==> r == Err::<Option<(usize, Response<()>)>, Error>(Error::HttpParseTooManyHeaders),
{
    axiom_wellformed_response(h, rest, cap);
    if h.fields.len() <= cap {
        assert forall|i: int| 0 <= i < h.fields.len() implies wf_field(#[trigger] h.fields[i]) && h.fields[i].name.len() < 65536 by {}
        lemma_build_parsed(h.fields, h.fields.len() as int);
        assert(parsed_fields(h.fields).len() == h.fields.len());
    }
}
/// C20 / C05: every strict prefix of a well-formed head (within the limit) is "incomplete": no error, no response
pub proof fn lemma_c20_response_prefix(h: Head, k: int, cap: nat, r: Result<Option<(usize, Response<()>)>, Error>)
    requires wf_head(h), 0 <= k < render_head(h).len(), h.fields.len() <= cap,
        spec_try_parse_response(parse_response(render_head(h).subrange(0, k), cap), r),
    ensures /*@OBL:C05/C20.strict_prefix_is_incomplete*/ r == Ok::<Option<(usize, Response<()>)>, Error>(None)
{
    axiom_wellformed_response_prefix(h, k, cap);
}
/// the prefix of "head ++ anything" of a length inside the head is a prefix of the head
pub proof fn lemma_prefix_of_head_and_rest(h: Head, rest: Seq<u8>, k: int)
    requires 0 <= k <= render_head(h).len()
    ensures (render_head(h) + rest).subrange(0, k) == render_head(h).subrange(0, k)
{
    assert((render_head(h) + rest).subrange(0, k) =~= render_head(h).subrange(0, k));
}
''')

PROOF('lemma_c20_partial_parser', ['C05', 'C20'], '''
/// C20 (partial response parser): on every strict prefix of a well-formed head within the limit it never fails, and
/// what it reports is the head's own version and status plus the first m fields, ALL of which are completely present
/// in the input (status line + those m field lines fit in the k bytes offered).
pub proof fn lemma_c20_partial_parser(h: Head, k: int, cap: nat, r: Result<Option<Response<()>>, Error>)
    requires wf_head(h), short_names(h), 0 <= k < render_head(h).len(), h.fields.len() <= cap,
        spec_try_parse_partial(parse_response(render_head(h).subrange(0, k), cap), r),
    ensures
        /*@OBL:C20.partial_parser_never_fails_on_a_prefix*/ r is Ok,
        /*@OBL:C20.partial_parser_reports_only_complete_fields*/ r->Ok_0 is Some ==> ({
            let m = r->Ok_0->Some_0.spec_headers().entries().len() as int;
            &&& m <= h.fields.len()
            &&& render_status_line(h).len() + render_fields(h.fields.subrange(0, m)).len() <= k
            &&& response_of_head(r->Ok_0->Some_0, h, m)
        }),
{
    axiom_wellformed_response_prefix(h, k, cap);
    let o = parse_response(render_head(h).subrange(0, k), cap);
    let p = o->Partial_0;
    let j = choose|j: int| 0 <= j <= h.fields.len() && p.fields == #[trigger] parsed_fields(h.fields.subrange(0, j))
                && render_status_line(h).len() + render_fields(h.fields.subrange(0, j)).len() <= k;
    assert forall|i: int| 0 <= i < h.fields.len() implies wf_field(#[trigger] h.fields[i]) && h.fields[i].name.len() < 65536 by {}
    if p.version is Some && p.code is Some {
        let m = nonempty_prefix(p.fields, p.fields.len() as int);
        lemma_nonempty_prefix_le(p.fields, p.fields.len() as int);
        assert(p.fields.len() == j);
        lemma_build_parsed_prefix(h.fields, j, m);
        lemma_render_fields_monotone(h.fields, m, j);
        assert(expected(h.fields).subrange(0, m).len() == m);
    }
}
''')

PROOF('lemma_c20_request_parser', ['C20'], '''
/// C20 (request parser): a well-formed request head followed by anything is returned exactly (method, version, all fields,
/// the head's length); too-many-headers exactly beyond the limit; every strict prefix within the limit is incomplete.
pub proof fn lemma_c20_request_parser(h: ReqHead, rest: Seq<u8>, cap: nat, r: Result<Option<(usize, Request<()>)>, Error>)
    requires wf_req_head(h), forall|i: int| 0 <= i < h.fields.len() ==> (#[trigger] h.fields[i]).name.len() < 65536,
        Method::spec_from_bytes(h.method) is Some,
        spec_try_parse_request(parse_request(render_req_head(h) + rest, cap), r),
    ensures
        /*@OBL:C20.wellformed_request_head_is_returned_exactly*/ h.fields.len() <= cap ==> (r is Ok && r->Ok_0 is Some && r->Ok_0->Some_0.0 == render_req_head(h).len()
            && r->Ok_0->Some_0.1.spec_version() == version_of(h.minor)
            && r->Ok_0->Some_0.1.spec_method() == Method::spec_from_bytes(h.method)->Some_0
            && hdr_multiset_order(r->Ok_0->Some_0.1.spec_headers().entries(), expected(h.fields))),
        /*@OBL:C20.request_too_many_fields_rejected*/ h.fields.len() > cap ==> r == Err::<Option<(usize, Request<()>)>, Error>(Error::HttpParseTooManyHeaders),
{
    axiom_wellformed_request(h, rest, cap);
    if h.fields.len() <= cap {
        assert forall|i: int| 0 <= i < h.fields.len() implies wf_field(#[trigger] h.fields[i]) && h.fields[i].name.len() < 65536 by {}
        lemma_build_parsed(h.fields, h.fields.len() as int);
        assert(parsed_fields(h.fields).len() == h.fields.len());
        assert(expected(h.fields).subrange(0, h.fields.len() as int) =~= expected(h.fields));
    }
}
pub proof fn lemma_c20_request_prefix(h: ReqHead, k: int, cap: nat, r: Result<Option<(usize, Request<()>)>, Error>)
    requires wf_req_head(h), 0 <= k < render_req_head(h).len(), h.fields.len() <= cap,
        spec_try_parse_request(parse_request(render_req_head(h).subrange(0, k), cap), r),
    ensures /*@OBL:C20.request_strict_prefix_is_incomplete*/ r == Ok::<Option<(usize, Request<()>)>, Error>(None)
{
    axiom_wellformed_request_prefix(h, k, cap);
}
''')

PROOF('lemma_c05_try_response', ['C05'], '''
/// C05 at Call<RecvResponse>::try_response: offering a well-formed head H (status other than 100, whose own framing
/// fields are acceptable) followed by ANY further bytes yields a response with exactly H's status, version and all
/// header fields and consumes exactly |H| bytes; heads with up to 128 fields are accepted, heads with more are rejected
/// with an error.  Hypotheses = the verified postconditions of try_response, by name.
pub proof fn lemma_c05_head_or_more(m: Method, h: Head, rest: Seq<u8>, r: Result<Option<(usize, Response<()>)>, Error>)
    requires wf_head(h), short_names(h), h.code != 100,
        c05_complete(m, render_head(h) + rest, r), c05_error(render_head(h) + rest, r),
        framing(m, h.code, h.minor == 0, text_first(expected(h.fields), lit("content-length")), text_first(expected(h.fields), lit("transfer-encoding"))) is Some,
    ensures
        /*@OBL:C05.wellformed_head_yields_exactly_that_response*/ h.fields.len() <= 128 ==> (r is Ok && r->Ok_0 is Some && r->Ok_0->Some_0.0 == render_head(h).len()
            && response_of_head(r->Ok_0->Some_0.1, h, h.fields.len() as int)),
        /*@OBL:C05.more_than_128_fields_rejected*/ h.fields.len() > 128 ==> r is Err,
{
    axiom_wellformed_response(h, rest, MAX_RESPONSE_HEADERS as nat);
    if h.fields.len() <= 128 {
        assert forall|i: int| 0 <= i < h.fields.len() implies wf_field(#[trigger] h.fields[i]) && h.fields[i].name.len() < 65536 by {}
        lemma_build_parsed(h.fields, h.fields.len() as int);
        assert(parsed_fields(h.fields).len() == h.fields.len());
        assert(expected(h.fields).subrange(0, h.fields.len() as int) =~= expected(h.fields));
    }
}
/// C05: every strict prefix of a well-formed head (up to 128 fields), including the empty prefix, yields "need more data":
/// never an error, never a response - unless it is a 3xx head cut after a complete Location line (known finding KF2, excluded
/// by the hypothesis, see lemma_c05_not_a_partial_redirect for when that cannot be the case)
pub proof fn lemma_c05_strict_prefix(h: Head, k: int, r: Result<Option<(usize, Response<()>)>, Error>)
    requires wf_head(h), short_names(h), h.fields.len() <= 128, 0 <= k < render_head(h).len(),
        c05_prefix(render_head(h).subrange(0, k), r),
        !partial_redirect_hack(parse_response(render_head(h).subrange(0, k), MAX_RESPONSE_HEADERS as nat)->Partial_0),
    ensures /*@OBL:C05.strict_prefix_needs_more_data*/ r == Ok::<Option<(usize, Response<()>)>, Error>(None)
{
    axiom_wellformed_response_prefix(h, k, MAX_RESPONSE_HEADERS as nat);
    let p = parse_response(render_head(h).subrange(0, k), MAX_RESPONSE_HEADERS as nat)->Partial_0;
    let j = choose|j: int| 0 <= j <= h.fields.len() && p.fields == #[trigger] parsed_fields(h.fields.subrange(0, j))
                && render_status_line(h).len() + render_fields(h.fields.subrange(0, j)).len() <= k;
    assert forall|i: int| 0 <= i < p.fields.len() implies (#[trigger] p.fields[i]).name.len() < 65536 by {
        assert(p.fields[i].name == h.fields.subrange(0, j)[i].name);
        assert(h.fields.subrange(0, j)[i] == h.fields[i]);
    }
}
/// a head that is not a 3xx, or has no Location field, is never subject to the partial-redirect work-around
pub proof fn lemma_c05_not_a_partial_redirect(h: Head, k: int)
    requires wf_head(h), short_names(h), h.fields.len() <= 128, 0 <= k < render_head(h).len(),
        !(300 <= h.code <= 399) || forall|i: int| 0 <= i < h.fields.len() ==> lower((#[trigger] h.fields[i]).name) != lit("location"),
    ensures !partial_redirect_hack(parse_response(render_head(h).subrange(0, k), MAX_RESPONSE_HEADERS as nat)->Partial_0)
{
    axiom_wellformed_response_prefix(h, k, MAX_RESPONSE_HEADERS as nat);
    let p = parse_response(render_head(h).subrange(0, k), MAX_RESPONSE_HEADERS as nat)->Partial_0;
    if p.version is Some && p.code is Some && 300 <= h.code <= 399 {
        let j = choose|j: int| 0 <= j <= h.fields.len() && p.fields == #[trigger] parsed_fields(h.fields.subrange(0, j))
                    && render_status_line(h).len() + render_fields(h.fields.subrange(0, j)).len() <= k;
        let mm = nonempty_prefix(p.fields, p.fields.len() as int);
        lemma_nonempty_prefix_le(p.fields, p.fields.len() as int);
        assert forall|i: int| 0 <= i < h.fields.len() implies wf_field(#[trigger] h.fields[i]) && h.fields[i].name.len() < 65536 by {}
        lemma_build_parsed_prefix(h.fields, j, mm);
        let hs = expected(h.fields).subrange(0, mm);
        lemma_has_name_by_name(hs, lit("location"));
        if has_name(hs, lit("location")) {
            let i = choose|i: int| 0 <= i < hs.len() && hs[i].name == lit("location");
            assert(hs[i].name == lower(h.fields[i].name));
        }
    }
}
''')

PROOF('lemma_c11_handshake', ['C11'], '''
/// C11 while awaiting 100, for ANY well-formed server head followed by ANY bytes: a complete bare 100 (any reason phrase)
/// is consumed exactly and the body is still due; any other response - another status, or any head with fields -
/// consumes nothing, the body is never requested and the connection is marked must-close (Not100Continue).
/// Hypothesis = the verified postcondition of Flow<Await100>::try_read_100.
pub proof fn lemma_c11_complete_head<B>(pre: &Inner<B>, post: &Inner<B>, h: Head, rest: Seq<u8>, r: Result<usize, Error>)
    requires wf_head(h), c11_handshake(pre, post, render_head(h) + rest, r), render_head(h).len() <= usize::MAX,
    ensures
        /*@OBL:C11.bare_100_consumed_exactly_body_due*/ h.code == 100 && h.fields.len() == 0 ==>
            r == Ok::<usize, Error>(render_head(h).len() as usize) && !post.await_100_continue && post.should_send_body && post.reasons() == pre.reasons(),
        /*@OBL:C11.any_other_response_refuses_the_body*/ h.code != 100 || h.fields.len() > 0 ==>
            r == Ok::<usize, Error>(0usize) && !post.await_100_continue && !post.should_send_body && post.reasons() == pre.reasons().push(CloseReason::Not100Continue),
{
    axiom_wellformed_response(h, rest, 0);
}
/// C11: input that ends inside the status line or right after it (of any well-formed head), and any strict prefix of a
/// bare head, decides nothing and consumes nothing: the flow is unchanged and still waiting
pub proof fn lemma_c11_undecided_prefix<B>(pre: &Inner<B>, post: &Inner<B>, h: Head, k: int, r: Result<usize, Error>)
    requires wf_head(h), 0 <= k < render_head(h).len(), k <= render_status_line(h).len() || h.fields.len() == 0,
        c11_handshake(pre, post, render_head(h).subrange(0, k), r),
    ensures /*@OBL:C11.undecided_prefix_changes_nothing*/ r == Ok::<usize, Error>(0usize) && post == pre
{
    axiom_wellformed_response_prefix(h, k, 0);
}
''')
