# src/client/holder.rs : type-erased call holder (C09)

MODULE('client::holder', 'src/client/holder.rs', uses='''
use crate::*;
use std::mem;
use crate::http::Request;
use crate::ext::{MethodExt, method_needs_body};
use crate::body::{BodyMode, BodyReader};
use crate::error::Error;
use crate::client::amended::AmendedRequest;
use crate::client::call::state::{RecvBody, RecvResponse, WithBody, WithoutBody};
use crate::client::call::{Call, Phase};
''')

ITEM('enum CallHolder', derive_drop=['Debug'])

IMPL('impl<B> CallHolder<B>', raw='''
    /// the amended request held by whichever call is inside
    pub open spec fn req(&self) -> AmendedRequest<B> {
        match *self {
            CallHolder::WithoutBody(c) => c.request, CallHolder::WithBody(c) => c.request,
            CallHolder::RecvResponse(c) => c.request, CallHolder::RecvBody(c) => c.request,
            CallHolder::Empty => arbitrary(),
        }
    }
    pub open spec fn analyzed(&self) -> bool {
        match *self {
            CallHolder::WithoutBody(c) => c.analyzed, CallHolder::WithBody(c) => c.analyzed,
            CallHolder::RecvResponse(c) => c.analyzed, CallHolder::RecvBody(c) => c.analyzed,
            CallHolder::Empty => false,
        }
    }
    pub open spec fn bstate(&self) -> crate::client::call::BodyState {
        match *self {
            CallHolder::WithoutBody(c) => c.state, CallHolder::WithBody(c) => c.state,
            CallHolder::RecvResponse(c) => c.state, CallHolder::RecvBody(c) => c.state,
            CallHolder::Empty => arbitrary(),
        }
    }
    /// C09: the holder is never left empty and the call inside is well formed
    pub open spec fn wf(&self) -> bool {
        match *self {
            CallHolder::WithoutBody(c) => c.wf(), CallHolder::WithBody(c) => c.wf(),
            CallHolder::RecvResponse(c) => c.wf(), CallHolder::RecvBody(c) => c.wf(),
            CallHolder::Empty => false,
        }
    }
''')
FN('new', props=['C09', 'C17'], ret='r',
   ensures=[('C09.holder_matches_method', '''r is Ok && r->Ok_0.wf() && r->Ok_0.req().request.same_head(&request) && r->Ok_0.req().uri is None
            && r->Ok_0.req().headers.view().len() == 0 && r->Ok_0.req().unset.view().len() == 0 && !r->Ok_0.analyzed()
            && r->Ok_0.bstate().phase == Phase::SendLine && r->Ok_0.bstate().reader is None && !r->Ok_0.bstate().skip_method_body_check && !r->Ok_0.bstate().stop_on_chunk_boundary
            && (if method_needs_body(request.spec_method()) { r->Ok_0 is WithBody && r->Ok_0.bstate().writer.mode is Chunked && !r->Ok_0.bstate().writer.ended }
                else { r->Ok_0 is WithoutBody && r->Ok_0.bstate().writer.mode is None && r->Ok_0.bstate().writer.ended })''')])
NOT_EMPTY = [('C09.holder_not_empty', '!(*self is Empty)')]
FN('request', props=['C09'], ret='r', requires=NOT_EMPTY, ensures=[('aux.holder.request', '*r == self.req()')])
FN('request_mut', props=['C09', 'C13', 'C16'], ret='r',
   requires=[('C09.holder_not_empty', '!(*old(self) is Empty)')],
   ensures=[('aux.holder.request_mut', '''*r == old(self).req() && *final(r) == final(self).req() && final(self).analyzed() == old(self).analyzed() && final(self).bstate() == old(self).bstate()
            && (*old(self) is WithoutBody <==> *final(self) is WithoutBody) && (*old(self) is WithBody <==> *final(self) is WithBody)
            && (*old(self) is RecvResponse <==> *final(self) is RecvResponse) && (*old(self) is RecvBody <==> *final(self) is RecvBody)''')])
FN('as_with_body', props=['C09'], ret='r', requires=[('C09.holder_is_with_body', '*self is WithBody')], ensures=[('aux.as_with_body', '*r == self->WithBody_0')])
FN('as_with_body_mut', props=['C09'], ret='r', requires=[('C09.holder_is_with_body', '*old(self) is WithBody')],
   ensures=[('aux.as_with_body_mut', '*r == old(self)->WithBody_0 && *final(self) is WithBody && *final(r) == final(self)->WithBody_0')])
FN('as_recv_response', props=['C09'], ret='r', requires=[('C09.holder_is_recv_response', '*self is RecvResponse')], ensures=[('aux.as_recv_response', '*r == self->RecvResponse_0')])
FN('as_recv_response_mut', props=['C09'], ret='r', requires=[('C09.holder_is_recv_response', '*old(self) is RecvResponse')],
   ensures=[('aux.as_recv_response_mut', '*r == old(self)->RecvResponse_0 && *final(self) is RecvResponse && *final(r) == final(self)->RecvResponse_0')])
FN('as_recv_body', props=['C09'], ret='r', requires=[('C09.holder_is_recv_body', '*self is RecvBody')], ensures=[('aux.as_recv_body', '*r == self->RecvBody_0')])
FN('as_recv_body_mut', props=['C09'], ret='r', requires=[('C09.holder_is_recv_body', '*old(self) is RecvBody')],
   ensures=[('aux.as_recv_body_mut', '*r == old(self)->RecvBody_0 && *final(self) is RecvBody && *final(r) == final(self)->RecvBody_0')])
FN('analyze_request', props=['C09', 'C17', 'C02'], ret='r',
   requires=[('C09.holder_wf', 'old(self).wf()')],
   ensures=[('aux.holder.analyze_request', '''final(self).wf() && match *old(self) {
            CallHolder::WithoutBody(c) => *final(self) is WithoutBody && Call::<WithoutBody, B>::post_analyze(&c, &final(self)->WithoutBody_0, r),
            CallHolder::WithBody(c) => *final(self) is WithBody && Call::<WithBody, B>::post_analyze(&c, &final(self)->WithBody_0, r),
            CallHolder::RecvResponse(c) => *final(self) is RecvResponse && Call::<RecvResponse, B>::post_analyze(&c, &final(self)->RecvResponse_0, r),
            CallHolder::RecvBody(c) => *final(self) is RecvBody && Call::<RecvBody, B>::post_analyze(&c, &final(self)->RecvBody_0, r),
            CallHolder::Empty => true }''')])
FN('body_mode', props=['C06'], ret='r', requires=NOT_EMPTY,
   ensures=[('C06.body_mode', '''match self.bstate().reader { Some(BodyReader::NoBody) => r == BodyMode::NoBody, Some(BodyReader::LengthDelimited(v)) => r == BodyMode::LengthDelimited(v),
            Some(BodyReader::Chunked(_)) => r == BodyMode::Chunked, Some(BodyReader::CloseDelimited) => r == BodyMode::CloseDelimited, None => r == BodyMode::Chunked }''')])
FN('convert_to_send_body', props=['C09'],
   requires=[('C09.convert_before_analysis', '(*old(self) is WithoutBody ==> !old(self)->WithoutBody_0.analyzed) && old(self).wf()')],
   ensures=[('C09.convert_to_send_body', '''final(self).wf() && if *old(self) is WithoutBody {
                *final(self) is WithBody && final(self).req() == old(self).req() && !final(self).analyzed() && final(self).bstate().phase == old(self).bstate().phase
                && final(self).bstate().reader == old(self).bstate().reader && final(self).bstate().skip_method_body_check && final(self).bstate().writer.mode is Chunked && !final(self).bstate().writer.ended
            } else { *final(self) == *old(self) }''')])
END()
