# module `lemmas`: composition lemmas over the step contracts (C01, C04, C08, C10) - written in /verif, proved by Verus
MODULE('lemmas', 'src/lib.rs', uses='''
use crate::*;
use crate::http::Hdr;
use crate::client::call::{Phase, head_step, head_from, spec_head, phase_ok};
use crate::client::amended::AmendedRequest;
''')
RAW('''
pub open spec fn concat(parts: Seq<Seq<u8>>) -> Seq<u8>
    decreases parts.len()
{
    if parts.len() == 0 { Seq::<u8>::empty() } else { concat(parts.drop_last()) + parts.last() }
}
/// a history of head-writing calls: phases[i] --emitted[i]--> phases[i+1], each step satisfying the verified step contract
pub open spec fn head_history<B>(req: &AmendedRequest<B>, phases: Seq<Phase>, emitted: Seq<Seq<u8>>) -> bool {
    &&& phases.len() == emitted.len() + 1
    &&& forall|i: int| 0 <= i < emitted.len() ==> head_step(req, #[trigger] phases[i], phases[i + 1], emitted[i])
}
''')
PROOF('lemma_head_schedule_independent', ['C01', 'C02'], '''
/// C01/C02: whatever the sequence of output buffers, the bytes emitted while sending the head concatenate to
/// the bytes of spec_head between the first and the last phase; in particular == spec_head once complete
pub proof fn lemma_head_history<B>(req: &AmendedRequest<B>, phases: Seq<Phase>, emitted: Seq<Seq<u8>>)
    requires head_history(req, phases, emitted)
    ensures head_from(req, phases[0]) == concat(emitted) + head_from(req, phases.last())
    decreases emitted.len()
{
    if emitted.len() == 0 {
        assert(concat(emitted) + head_from(req, phases.last()) =~= head_from(req, phases[0]));
    } else {
        let p2 = phases.drop_last();
        let e2 = emitted.drop_last();
        assert(head_history(req, p2, e2)) by {
            assert forall|i: int| 0 <= i < e2.len() implies head_step(req, #[trigger] p2[i], p2[i + 1], e2[i]) by {
                assert(p2[i] == phases[i]); assert(p2[i + 1] == phases[i + 1]);
            }
        }
        lemma_head_history(req, p2, e2);
        let k = emitted.len() as int;
        assert(head_step(req, phases[k - 1], phases[k], emitted[k - 1]));
        assert(p2.last() == phases[k - 1]);
        assert(head_from(req, phases[0]) =~= concat(emitted) + head_from(req, phases.last()));
    }
}
pub proof fn lemma_head_schedule_independent<B>(req: &AmendedRequest<B>, phases: Seq<Phase>, emitted: Seq<Seq<u8>>)
    requires head_history(req, phases, emitted), phases[0] == Phase::SendLine, phases.last() == Phase::SendBody
    ensures /*@OBL:C01.head_bytes_independent_of_buffer_schedule*/ concat(emitted) == spec_head(req)
{
    lemma_head_history(req, phases, emitted);
    assert(concat(emitted) + Seq::<u8>::empty() =~= concat(emitted));
}
''')
