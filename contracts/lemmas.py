# module `lemmas`: composition lemmas over the step contracts (C01, C04, C08, C10) - written in /verif, proved by Verus
MODULE('lemmas', 'src/lib.rs', uses='''
use crate::*;
use crate::http::Hdr;
use crate::client::call::{Phase, head_step, head_from, spec_head, phase_ok};
use crate::client::amended::AmendedRequest;
''')
RAW('''
pub open spec fn concat(parts: Seq<Seq<u8>>) -> Seq<u8>
    decreases parts.len()
{
    if parts.len() == 0 { Seq::<u8>::empty() } else { concat(parts.drop_last()) + parts.last() }
}
/// a history of head-writing calls: phases[i] --emitted[i]--> phases[i+1], each step satisfying the verified step contract
pub open spec fn head_history<B>(req: &AmendedRequest<B>, phases: Seq<Phase>, emitted: Seq<Seq<u8>>) -> bool {
    &&& phases.len() == emitted.len() + 1
    &&& forall|i: int| 0 <= i < emitted.len() ==> head_step(req, #[trigger] phases[i], phases[i + 1], emitted[i])
}
''')
PROOF('lemma_head_schedule_independent', ['C01', 'C02'], '''
/// C01/C02: whatever the sequence of output buffers, the bytes emitted while sending the head concatenate to
/// the bytes of spec_head between the first and the last phase; in particular == spec_head once complete
pub proof fn lemma_head_history<B>(req: &AmendedRequest<B>, phases: Seq<Phase>, emitted: Seq<Seq<u8>>)
    requires head_history(req, phases, emitted)
    ensures head_from(req, phases[0]) == concat(emitted) + head_from(req, phases.last())
    decreases emitted.len()
{
    if emitted.len() == 0 {
        assert(concat(emitted) + head_from(req, phases.last()) =~= head_from(req, phases[0]));
    } else {
        let p2 = phases.drop_last();
        let e2 = emitted.drop_last();
        assert(head_history(req, p2, e2)) by {
            assert forall|i: int| 0 <= i < e2.len() implies head_step(req, #[trigger] p2[i], p2[i + 1], e2[i]) by {
                assert(p2[i] == phases[i]); assert(p2[i + 1] == phases[i + 1]);
            }
        }
        lemma_head_history(req, p2, e2);
        let k = emitted.len() as int;
        assert(head_step(req, phases[k - 1], phases[k], emitted[k - 1]));
        assert(p2.last() == phases[k - 1]);
        assert(head_from(req, phases[0]) =~= concat(emitted) + head_from(req, phases.last()));
    }
}
pub proof fn lemma_head_schedule_independent<B>(req: &AmendedRequest<B>, phases: Seq<Phase>, emitted: Seq<Seq<u8>>)
    requires head_history(req, phases, emitted), phases[0] == Phase::SendLine, phases.last() == Phase::SendBody
    ensures /*@OBL:C01.head_bytes_independent_of_buffer_schedule*/ concat(emitted) == spec_head(req)
{
    lemma_head_history(req, phases, emitted);
    assert(concat(emitted) + Seq::<u8>::empty() =~= concat(emitted));
}
''')

# ---------------------------------------------------------------------------------------- C04 / C08 / C10 histories
RAW('''
use crate::body::{BodyWriter, SenderMode, BodyReader};
use crate::client::call::sized_step;
use crate::client::flow::CloseReason;

/// one write of a Content-Length body as the contract of Call<WithBody>::write describes it
pub struct SizedCall { pub input: Seq<u8>, pub space: nat, pub emitted: Seq<u8>, pub consumed: nat }
/// a history of accepted writes: writers[i] --calls[i]--> writers[i+1], each satisfying the verified step contract
pub open spec fn sized_history(writers: Seq<BodyWriter>, calls: Seq<SizedCall>) -> bool {
    &&& writers.len() == calls.len() + 1
    &&& forall|i: int| 0 <= i < calls.len() ==> (#[trigger] writers[i]).mode is Sized
            && sized_step(writers[i], writers[i + 1], calls[i].input, calls[i].space, calls[i].emitted, calls[i].consumed, calls[i].emitted.len())
}
pub open spec fn total_consumed(calls: Seq<SizedCall>) -> nat
    decreases calls.len()
{ if calls.len() == 0 { 0 } else { total_consumed(calls.drop_last()) + calls.last().consumed } }
pub open spec fn all_emitted(calls: Seq<SizedCall>) -> Seq<u8>
    decreases calls.len()
{ if calls.len() == 0 { Seq::<u8>::empty() } else { all_emitted(calls.drop_last()) + calls.last().emitted } }
pub open spec fn all_consumed(calls: Seq<SizedCall>) -> Seq<u8>
    decreases calls.len()
{ if calls.len() == 0 { Seq::<u8>::empty() } else { all_consumed(calls.drop_last()) + calls.last().input.subrange(0, calls.last().consumed as int) } }
''')
PROOF('lemma_sized_history', ['C04', 'C01'], '''
/// C04: over ANY sequence of writes of a Content-Length N body the bytes on the wire are exactly the bytes
/// reported consumed, the running total never exceeds N, and the remaining count is N minus the total
pub proof fn lemma_sized_history(writers: Seq<BodyWriter>, calls: Seq<SizedCall>, n: u64)
    requires sized_history(writers, calls), writers[0].mode == SenderMode::Sized(n),
    ensures
        /*@OBL:C04.history_wire_equals_consumed*/ all_emitted(calls) == all_consumed(calls),
        /*@OBL:C04.history_total_never_exceeds_n*/ total_consumed(calls) <= n,
        /*@OBL:C04.history_remaining_is_n_minus_total*/ writers.last().mode == SenderMode::Sized((n - total_consumed(calls)) as u64),
    decreases calls.len()
{
    if calls.len() > 0 {
        let w2 = writers.drop_last();
        let c2 = calls.drop_last();
        assert(sized_history(w2, c2)) by {
            assert forall|i: int| 0 <= i < c2.len() implies (#[trigger] w2[i]).mode is Sized
                && sized_step(w2[i], w2[i + 1], c2[i].input, c2[i].space, c2[i].emitted, c2[i].consumed, c2[i].emitted.len()) by {
                assert(w2[i] == writers[i]); assert(w2[i + 1] == writers[i + 1]); assert(c2[i] == calls[i]);
            }
        }
        lemma_sized_history(w2, c2, n);
        let k = calls.len() as int;
        assert(w2.last() == writers[k - 1]);
        assert(sized_step(writers[k - 1], writers[k], calls[k - 1].input, calls[k - 1].space, calls[k - 1].emitted, calls[k - 1].consumed, calls[k - 1].emitted.len()));
    }
}
''')

RAW('''
/// one read of a Content-Length response body: (input window, output space, bytes delivered)
pub struct LenRead { pub window: Seq<u8>, pub space: nat, pub delivered: Seq<u8>, pub consumed: nat }
/// history of reads; the caller re-presents unconsumed bytes: window[i] is a prefix of stream[pos_i ..]
pub open spec fn len_history(stream: Seq<u8>, lefts: Seq<u64>, reads: Seq<LenRead>) -> bool {
    &&& lefts.len() == reads.len() + 1
    &&& forall|i: int| 0 <= i < reads.len() ==> {
            let n = min3((#[trigger] reads[i]).window.len() as int, reads[i].space as int, lefts[i] as int);
            &&& reads[i].consumed == n && reads[i].delivered == reads[i].window.subrange(0, n) && lefts[i + 1] == lefts[i] - n
            &&& pos_after(reads, i) + reads[i].window.len() <= stream.len()
            &&& reads[i].window == stream.subrange(pos_after(reads, i) as int, (pos_after(reads, i) + reads[i].window.len()) as int)
        }
}
/// stream position before read i = bytes consumed by reads 0..i
pub open spec fn pos_after(reads: Seq<LenRead>, i: int) -> nat
    decreases i
{ if i <= 0 { 0 } else { pos_after(reads, i - 1) + reads[i - 1].consumed } }
pub open spec fn all_delivered(reads: Seq<LenRead>, i: int) -> Seq<u8>
    decreases i
{ if i <= 0 { Seq::<u8>::empty() } else { all_delivered(reads, i - 1) + reads[i - 1].delivered } }
''')
PROOF('lemma_len_history', ['C08', 'C01'], '''
/// C08: over ANY arrival / buffer schedule the reads of a Content-Length N body deliver exactly the first
/// bytes of the stream, unchanged and in order, never more than N, and the body is complete exactly at N
pub proof fn lemma_len_history(stream: Seq<u8>, lefts: Seq<u64>, reads: Seq<LenRead>, n: u64, k: int)
    requires len_history(stream, lefts, reads), lefts[0] == n, 0 <= k <= reads.len(),
    ensures
        /*@OBL:C08.history_delivers_stream_prefix*/ pos_after(reads, k) <= stream.len() && all_delivered(reads, k) == stream.subrange(0, pos_after(reads, k) as int),
        /*@OBL:C08.history_never_beyond_n*/ pos_after(reads, k) <= n && lefts[k] == n - pos_after(reads, k),
    decreases k
{
    if k > 0 {
        lemma_len_history(stream, lefts, reads, n, k - 1);
        let r = reads[k - 1];
        let p = pos_after(reads, k - 1);
        assert(r.delivered == r.window.subrange(0, r.consumed as int));
        assert(r.window.subrange(0, r.consumed as int) =~= stream.subrange(p as int, (p + r.consumed) as int));
        assert(all_delivered(reads, k) =~= stream.subrange(0, pos_after(reads, k) as int));
    } else {
        assert(all_delivered(reads, 0) =~= stream.subrange(0, 0));
    }
}
''')

RAW('''
/// the four facts that can add a close reason after construction, in the order the flow can meet them
pub struct CloseFacts { pub not_100: bool, pub server_close: bool, pub close_delimited: bool }
/// C10: the reason list at the end of an exchange, as the append-or-frame contracts of flow.rs compose
pub open spec fn final_reasons(base: Seq<CloseReason>, f: CloseFacts) -> Seq<CloseReason> {
    base + (if f.not_100 { seq![CloseReason::Not100Continue] } else { Seq::<CloseReason>::empty() })
         + (if f.server_close { seq![CloseReason::ServerConnectionClose] } else { Seq::<CloseReason>::empty() })
         + (if f.close_delimited { seq![CloseReason::CloseDelimitedBody] } else { Seq::<CloseReason>::empty() })
}
''')
PROOF('lemma_close_trace', ['C10', 'C01'], '''
/// C10: must-close (list non-empty) iff at least one of the five conditions happened, and the reason given
/// (the first element) names a condition that did happen; at most five entries (the capacity)
pub proof fn lemma_close_trace(version: crate::http::Version, headers: Seq<Hdr>, f: CloseFacts)
    ensures ({
        let base = crate::client::flow::base_reasons(version, headers);
        let http10 = version == crate::http::Version::HTTP_10;
        let client_close = crate::http::has_field(headers, crate::client::amended::lit("connection"), crate::client::amended::lit("close"));
        let all = final_reasons(base, f);
        &&& /*@OBL:C10.trace_verdict_is_the_disjunction*/ (all.len() > 0 <==> (http10 || client_close || f.not_100 || f.server_close || f.close_delimited))
        &&& /*@OBL:C10.trace_capacity*/ all.len() <= 5
        &&& /*@OBL:C10.trace_first_reason_holds*/ (all.len() > 0 ==> match all[0] {
                CloseReason::Http10 => http10, CloseReason::ClientConnectionClose => client_close, CloseReason::Not100Continue => f.not_100,
                CloseReason::ServerConnectionClose => f.server_close, CloseReason::CloseDelimitedBody => f.close_delimited })
    })
{
}
''')

# ---------------------------------------------------------------------------------------- C03 history (chunked request body)
RAW('''
use crate::body::{chunk_bytes, chunked_with, all_pos, total, is_chunking, term_bytes};
use crate::client::call::chunked_step;
/// `bytes` is a sequence of complete non-empty chunks whose concatenated data is exactly `data`
pub open spec fn chunk_stream(bytes: Seq<u8>, data: Seq<u8>) -> bool {
    exists|sizes: Seq<nat>| all_pos(sizes) && total(sizes) == data.len() && bytes == #[trigger] chunked_with(data, sizes)
}
/// one data write (non-empty input) of a chunked request body, as the contract of Call<WithBody>::write describes it
pub struct ChunkedCall { pub input: Seq<u8>, pub emitted: Seq<u8>, pub consumed: nat }
pub open spec fn chunked_calls_ok(calls: Seq<ChunkedCall>) -> bool {
    forall|i: int| 0 <= i < calls.len() ==> is_chunking((#[trigger] calls[i]).emitted, calls[i].input, calls[i].consumed)
}
pub open spec fn wire(calls: Seq<ChunkedCall>) -> Seq<u8>
    decreases calls.len()
{ if calls.len() == 0 { Seq::<u8>::empty() } else { wire(calls.drop_last()) + calls.last().emitted } }
pub open spec fn sent(calls: Seq<ChunkedCall>) -> Seq<u8>
    decreases calls.len()
{ if calls.len() == 0 { Seq::<u8>::empty() } else { sent(calls.drop_last()) + calls.last().input.subrange(0, calls.last().consumed as int) } }
''')
PROOF('lemma_chunked_writes_history', ['C03', 'C01'], '''
/// the chunk encoding only looks at the bytes it covers
pub proof fn lemma_chunked_with_prefix(a: Seq<u8>, b: Seq<u8>, sizes: Seq<nat>)
    requires total(sizes) <= a.len(), a.is_prefix_of(b)
    ensures chunked_with(a, sizes) == chunked_with(b, sizes)
    decreases sizes.len()
{
    if sizes.len() > 0 {
        let p = sizes.drop_last();
        lemma_chunked_with_prefix(a, b, p);
        assert(a.subrange(total(p) as int, (total(p) + sizes.last()) as int) =~= b.subrange(total(p) as int, (total(p) + sizes.last()) as int));
    }
}
pub proof fn lemma_total_concat(s1: Seq<nat>, s2: Seq<nat>)
    ensures total(s1 + s2) == total(s1) + total(s2)
    decreases s2.len()
{
    if s2.len() == 0 { assert(s1 + s2 =~= s1); } else {
        assert((s1 + s2).drop_last() =~= s1 + s2.drop_last());
        lemma_total_concat(s1, s2.drop_last());
    }
}
/// two chunk streams concatenate to a chunk stream of the concatenated data
pub proof fn lemma_chunked_with_concat(d1: Seq<u8>, s1: Seq<nat>, d2: Seq<u8>, s2: Seq<nat>)
    requires total(s1) == d1.len(), total(s2) == d2.len()
    ensures chunked_with(d1 + d2, s1 + s2) == chunked_with(d1, s1) + chunked_with(d2, s2)
    decreases s2.len()
{
    if s2.len() == 0 {
        assert(s1 + s2 =~= s1);
        lemma_chunked_with_prefix(d1, d1 + d2, s1);
        assert(chunked_with(d1, s1) + chunked_with(d2, s2) =~= chunked_with(d1, s1));
    } else {
        let p2 = s2.drop_last();
        let k = s2.last();
        assert((s1 + s2).drop_last() =~= s1 + p2);
        lemma_total_concat(s1, p2);
        // induction on the data of the shorter size list
        let d2p = d2.subrange(0, total(p2) as int);
        lemma_chunked_with_concat(d1, s1, d2p, p2);
        lemma_chunked_with_prefix(d1 + d2p, d1 + d2, s1 + p2);
        lemma_chunked_with_prefix(d2p, d2, p2);
        assert((d1 + d2).subrange((total(s1) + total(p2)) as int, (total(s1) + total(p2) + k) as int) =~= d2.subrange(total(p2) as int, (total(p2) + k) as int));
        assert(chunked_with(d1 + d2, s1 + s2) =~= chunked_with(d1, s1) + chunked_with(d2, s2));
    }
}
/// C03: over ANY sequence of data writes the bytes on the wire are complete non-empty chunks whose data is, byte for byte,
/// the concatenation of the input bytes reported consumed
pub proof fn lemma_chunked_writes_history(calls: Seq<ChunkedCall>)
    requires chunked_calls_ok(calls)
    ensures /*@OBL:C03.history_wire_is_chunking_of_consumed*/ chunk_stream(wire(calls), sent(calls))
    decreases calls.len()
{
    if calls.len() == 0 {
        let e = Seq::<nat>::empty();
        assert(chunked_with(Seq::<u8>::empty(), e) =~= Seq::<u8>::empty());
        assert(all_pos(e) && total(e) == 0);
    } else {
        let c2 = calls.drop_last();
        assert(chunked_calls_ok(c2)) by { assert forall|i: int| 0 <= i < c2.len() implies is_chunking((#[trigger] c2[i]).emitted, c2[i].input, c2[i].consumed) by { assert(c2[i] == calls[i]); } }
        lemma_chunked_writes_history(c2);
        let last = calls.last();
        assert(is_chunking(last.emitted, last.input, last.consumed));
        let s1 = choose|sizes: Seq<nat>| all_pos(sizes) && total(sizes) == sent(c2).len() && wire(c2) == #[trigger] chunked_with(sent(c2), sizes);
        let s2 = choose|sizes: Seq<nat>| all_pos(sizes) && total(sizes) == last.consumed && last.consumed <= last.input.len() && last.emitted == #[trigger] chunked_with(last.input, sizes);
        let d2 = last.input.subrange(0, last.consumed as int);
        lemma_chunked_with_prefix(d2, last.input, s2);
        lemma_chunked_with_concat(sent(c2), s1, d2, s2);
        lemma_total_concat(s1, s2);
        assert(all_pos(s1 + s2));
        assert(wire(calls) == chunked_with(sent(calls), s1 + s2));
    }
}
''')
