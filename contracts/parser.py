# src/parser.rs : bridge httparse -> http  (C05, C11, C20, C12)

MODULE('parser', 'src/parser.rs', uses='''
use crate::*;
use crate::http::{Method, Request, Response, StatusCode, Version, Hdr, lower, valid_name, valid_value, hdr_multiset_order};
use crate::httparse;
use crate::httparse::{Status, Outcome, Parsed, PField};
use crate::error::Error;
''')

RAW('''
/// the fields a builder holds after appending fields[0..k): Err once one of them is not a valid
/// `http` header (httparse guarantees token names and value bytes, but not the 64 KiB name limit)
pub open spec fn build_fields(fields: Seq<PField>, k: int) -> Result<Seq<Hdr>, ()>
    decreases k
{
    if k <= 0 { Ok(Seq::<Hdr>::empty()) } else {
        match build_fields(fields, k - 1) {
            Ok(hs) => if valid_name(fields[k - 1].name) && valid_value(fields[k - 1].value) { Ok(hs.push(Hdr { name: lower(fields[k - 1].name), value: fields[k - 1].value })) } else { Err(()) },
            Err(e) => Err(e),
        }
    }
}
pub open spec fn version_of(v: u8) -> Version { if v == 0 { Version::HTTP_10 } else { Version::HTTP_11 } }
/// the response reports exactly the parsed version, status and fields (C05 / C20)
pub open spec fn response_is(r: Response<()>, p: Parsed, hs: Seq<Hdr>) -> bool {
    &&& r.spec_version() == version_of(p.version->Some_0)
    &&& r.spec_status() == StatusCode(p.code->Some_0)
    &&& hdr_multiset_order(r.spec_headers().entries(), hs)
}
/// C05/C20: what the complete response parser returns, as a function of httparse's outcome.  WHICH error a malformed head
/// yields is not part of any property (only "an error", and that it is not the too-many-headers one): the variants are not pinned.
pub open spec fn spec_try_parse_response(o: Outcome, r: Result<Option<(usize, Response<()>)>, Error>) -> bool {
    match o {
        Outcome::Err(e) => if e == httparse::Error::TooManyHeaders { r == Err::<Option<(usize, Response<()>)>, Error>(Error::HttpParseTooManyHeaders) } else { r is Err && r->Err_0 is HttpParseFail },
        Outcome::Partial(_) => r == Ok::<Option<(usize, Response<()>)>, Error>(None),
        Outcome::Complete(n, p) =>
            if p.version is None { (r is Err && !(r->Err_0 is HttpParseTooManyHeaders)) }
            else if p.version->Some_0 > 1 { (r is Err && !(r->Err_0 is HttpParseTooManyHeaders)) }
            else if p.code is None { (r is Err && !(r->Err_0 is HttpParseTooManyHeaders)) }
            else if !(100 <= p.code->Some_0 <= 999) { (r is Err && !(r->Err_0 is HttpParseTooManyHeaders)) }
            else { match build_fields(p.fields, p.fields.len() as int) {
                Ok(hs) => r is Ok && r->Ok_0 is Some && r->Ok_0->Some_0.0 == n && response_is(r->Ok_0->Some_0.1, p, hs),
                Err(_) => r is Err && r->Err_0 is BadHeader,
            } }
    }
}
/// number of leading fields with non-empty name and value (where the partial parser stops)
pub open spec fn nonempty_prefix(fields: Seq<PField>, k: int) -> int
    decreases k
{
    if k <= 0 { 0 } else { let m = nonempty_prefix(fields, k - 1); if m == k - 1 && fields[k - 1].name.len() > 0 && fields[k - 1].value.len() > 0 { k } else { m } }
}
/// C20: the partial parser: no answer before the status line is complete, then the completely received
/// fields up to the first one with an empty value; never an error on a prefix
pub open spec fn spec_try_parse_partial(o: Outcome, r: Result<Option<Response<()>>, Error>) -> bool {
    match o {
        Outcome::Err(e) => if e == httparse::Error::TooManyHeaders { r == Err::<Option<Response<()>>, Error>(Error::HttpParseTooManyHeaders) } else { r is Err && r->Err_0 is HttpParseFail },
        Outcome::Partial(p) | Outcome::Complete(_, p) =>
            if p.version is None || p.version->Some_0 > 1 || p.code is None { r == Ok::<Option<Response<()>>, Error>(None) }
            else if !(100 <= p.code->Some_0 <= 999) { (r is Err && !(r->Err_0 is HttpParseTooManyHeaders)) }
            else { match build_fields(p.fields, nonempty_prefix(p.fields, p.fields.len() as int)) {
                Ok(hs) => r is Ok && r->Ok_0 is Some && response_is(r->Ok_0->Some_0, p, hs),
                Err(_) => r is Err && r->Err_0 is BadHeader,
            } }
    }
}
''')

RAW('''
// N9: `Error::BadHeader(e.to_string())` (Display of http::Error is outside the verifier)
#[verifier::external_body]
pub fn bad_header(e: crate::http::Error) -> (r: Error) ensures r is BadHeader { unimplemented!() }
''')
HDR_LOOP_INV = [
    ('aux.parse.loop.idx', 'idx <= res.headers@.len()'),
    ('aux.parse.loop.builder', '''builder.state() == match build_fields(fields, idx as int) {
                Ok(hs) => Ok::<crate::http::response::BParts, ()>(crate::http::response::BParts { version: version, status: status, headers: hs }), Err(e) => Err(e) }'''),
    ('aux.parse.loop.slots', 'httparse::slots_hold(res.headers@, fields) && fields.len() == res.headers@.len()'),
]

FN('try_parse_response', props=['C05', 'C11', 'C20', 'C12', 'C01'], ret='r',
   ensures=[
       ('C05/C20/C11.complete_parser_exact', 'spec_try_parse_response(httparse::parse_response(input@, N as nat), r)'),
   ],
   head='broadcast use httparse::axiom_outcome_ok, axiom_str_bytes_empty;',
   rewrites=[
       ('N5', '.map_err(|e| Error::BadHeader(e.to_string()))?', '.map_err(|e: crate::http::Error| -> (e2: Error) ensures e2 is BadHeader { bad_header(e) })?'),
       ('N5', '.map_err(|_| Error::ResponseInvalidStatus)?', '.map_err(|_e: crate::http::InvalidStatusCode| -> (e2: Error) ensures e2 == Error::ResponseInvalidStatus { Error::ResponseInvalidStatus })?'),
       ('N9', '[httparse::EMPTY_HEADER; N]', 'httparse::empty_headers::<N>()'),
       ('N11', 'for h in res.headers {', '''let mut idx: usize = 0;
    while idx < res.headers.len() {
        let h = &res.headers[idx];'''),
   ],
   before=[('let mut idx: usize = 0;', '''let ghost fields = httparse::parse_response(input@, N as nat)->Complete_1.fields;''')],
   loops={1: {'kw': 'while', 'invariant': HDR_LOOP_INV, 'decreases': 'res.headers@.len() - idx', 'body_tail': 'idx += 1;'}},
   )

RAW('''
/// fields that httparse reports (token names, valid value bytes) with names shorter than 64 KiB always build
pub proof fn lemma_build_fields_ok(fields: Seq<PField>, k: int)
    requires k <= fields.len(),
        forall|i: int| 0 <= i < fields.len() ==> crate::http::is_token((#[trigger] fields[i]).name) && 0 < fields[i].name.len() < 65536 && valid_value(fields[i].value)
    ensures build_fields(fields, k) is Ok
    decreases k
{
    if k > 0 { lemma_build_fields_ok(fields, k - 1); }
}
pub proof fn lemma_nonempty_prefix_le(fields: Seq<PField>, k: int)
    ensures nonempty_prefix(fields, k) <= (if k < 0 { 0 } else { k }), nonempty_prefix(fields, k) >= 0
    decreases k
{
    if k > 0 { lemma_nonempty_prefix_le(fields, k - 1); }
}
/// once an empty field is met at m, the prefix never grows past it
pub proof fn lemma_nonempty_prefix_stops(fields: Seq<PField>, m: int, k: int)
    requires 0 <= m < k, nonempty_prefix(fields, m) == m, !(fields[m].name.len() > 0 && fields[m].value.len() > 0)
    ensures nonempty_prefix(fields, k) == m
    decreases k
{
    if k == m + 1 {
    } else {
        lemma_nonempty_prefix_stops(fields, m, k - 1);
    }
}

pub open spec fn request_is(r: Request<()>, p: Parsed, m: Method, hs: Seq<Hdr>) -> bool {
    &&& r.spec_version() == version_of(p.version->Some_0)
    &&& r.spec_method() == m
    &&& hdr_multiset_order(r.spec_headers().entries(), hs)
}
/// C20: the request parser as a function of httparse's outcome
pub open spec fn spec_try_parse_request(o: Outcome, r: Result<Option<(usize, Request<()>)>, Error>) -> bool {
    match o {
        Outcome::Err(e) => if e == httparse::Error::TooManyHeaders { r == Err::<Option<(usize, Request<()>)>, Error>(Error::HttpParseTooManyHeaders) } else { r is Err && r->Err_0 is HttpParseFail },
        Outcome::Partial(_) => r == Ok::<Option<(usize, Request<()>)>, Error>(None),
        Outcome::Complete(n, p) =>
            if p.version is None { (r is Err && !(r->Err_0 is HttpParseTooManyHeaders)) }
            else if p.version->Some_0 > 1 { (r is Err && !(r->Err_0 is HttpParseTooManyHeaders)) }
            else if p.method is None { (r is Err && !(r->Err_0 is HttpParseTooManyHeaders)) }
            else { match Method::spec_from_bytes(p.method->Some_0) {
                None => (r is Err && !(r->Err_0 is HttpParseTooManyHeaders)),
                Some(m) => match build_fields(p.fields, p.fields.len() as int) {
                    Ok(hs) => r is Ok && r->Ok_0 is Some && r->Ok_0->Some_0.0 == n && request_is(r->Ok_0->Some_0.1, p, m, hs),
                    Err(_) => r is Err && r->Err_0 is BadHeader,
                } } }
    }
}
''')

FN('try_parse_partial_response', props=['C05', 'C20', 'C12'], ret='r',
   ensures=[
       ('C05/C20.partial_parser_exact', 'spec_try_parse_partial(httparse::parse_response(input@, N as nat), r)'),
   ],
   head='broadcast use httparse::axiom_outcome_ok, axiom_str_bytes_empty;',
   rewrites=[
       ('N5', '.map_err(|e| Error::BadHeader(e.to_string()))?', '.map_err(|e: crate::http::Error| -> (e2: Error) ensures e2 is BadHeader { bad_header(e) })?'),
       ('N5', '.map_err(|_| Error::ResponseInvalidStatus)?', '.map_err(|_e: crate::http::InvalidStatusCode| -> (e2: Error) ensures e2 == Error::ResponseInvalidStatus { Error::ResponseInvalidStatus })?'),
       ('N9', '[httparse::EMPTY_HEADER; N]', 'httparse::empty_headers::<N>()'),
       ('N11', 'for h in res.headers {', '''let mut idx: usize = 0;
    while idx < res.headers.len() {
        let h = &res.headers[idx];'''),
   ],
   before=[('let mut idx: usize = 0;', '''let ghost fields = match httparse::parse_response(input@, N as nat) { Outcome::Complete(_, p) => p.fields, Outcome::Partial(p) => p.fields, _ => Seq::<PField>::empty() };
    let ghost total = fields.len() as int;'''),
           ('break;', '''proof { if (idx as int) < total { lemma_nonempty_prefix_stops(fields, idx as int, total); } }''')],
   loops={1: {'kw': 'while',
              'invariant': [
                  ('aux.partial.loop.idx', 'idx <= res.headers@.len() && idx <= total && total == fields.len() && total <= res.headers@.len()'),
                  ('aux.partial.loop.prefix', 'nonempty_prefix(fields, idx as int) == idx'),
                  ('aux.partial.loop.builder', '''builder.state() == match build_fields(fields, idx as int) {
                Ok(hs) => Ok::<crate::http::response::BParts, ()>(crate::http::response::BParts { version: version, status: status, headers: hs }), Err(e) => Err(e) }'''),
                  ('aux.partial.loop.slots', 'httparse::slots_hold(res.headers@, fields) && forall|i: int| total <= i < res.headers@.len() ==> (#[trigger] res.headers@[i]).is_empty_slot()'),
              ],
              'ensures': [('aux.partial.loop.exit', 'nonempty_prefix(fields, total) == idx')],
              'body_head': 'broadcast use axiom_str_bytes_empty;', 'body_tail': 'idx += 1;',
              'decreases': 'res.headers@.len() - idx'}},
   )

FN('try_parse_request', props=['C20', 'C12'], ret='r',
   ensures=[
       ('C20.request_parser_exact', 'spec_try_parse_request(httparse::parse_request(input@, N as nat), r)'),
   ],
   head='broadcast use httparse::axiom_outcome_ok, axiom_str_bytes_empty;',
   rewrites=[
       ('N5', '.map_err(|e| Error::BadHeader(e.to_string()))?', '.map_err(|e: crate::http::Error| -> (e2: Error) ensures e2 is BadHeader { bad_header(e) })?'),
       ('N9', 'v.as_bytes()', 'str_as_bytes(v)'),
       ('N5', '.map_err(|_| Error::RequestInvalidMethod)?', '.map_err(|_e: crate::http::InvalidMethod| -> (e2: Error) ensures e2 == Error::RequestInvalidMethod { Error::RequestInvalidMethod })?'),
       ('N9', '[httparse::EMPTY_HEADER; N]', 'httparse::empty_headers::<N>()'),
       ('N11', 'for h in req.headers {', '''let mut idx: usize = 0;
    while idx < req.headers.len() {
        let h = &req.headers[idx];'''),
   ],
   before=[('let mut idx: usize = 0;', '''let ghost fields = httparse::parse_request(input@, N as nat)->Complete_1.fields;''')],
   loops={1: {'kw': 'while',
              'invariant': [
                  ('aux.request.loop.idx', 'idx <= req.headers@.len()'),
                  ('aux.request.loop.builder', '''builder.state() == match build_fields(fields, idx as int) {
                Ok(hs) => Ok::<crate::http::request::BParts, ()>(crate::http::request::BParts { version: version, method: method, headers: hs }), Err(e) => Err(e) }'''),
                  ('aux.request.loop.slots', 'httparse::slots_hold(req.headers@, fields) && fields.len() == req.headers@.len()'),
              ],
              'decreases': 'req.headers@.len() - idx', 'body_tail': 'idx += 1;'}},
   )
