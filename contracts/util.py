# contracts for src/util.rs  (module `util` of the woven crate)

MODULE('util', 'src/util.rs', uses='''
use crate::*;
use crate::io::{self, Cursor};
use std::ops::{Deref, DerefMut};
use vstd::std_specs::iter::IteratorSpec;
''')

# ----------------------------------------------------------------------------- find_crlf
RAW('''
// N9 stubs: `s.iter().position(|c| *c == v)` and `s.iter().take(n).position(|c| *c == v)`
// (std iterator adapters with closures; assumed contract = documented behaviour of
// Iterator::position / Iterator::take)
#[verifier::external_body]
pub fn slice_position(s: &[u8], v: u8) -> (r: Option<usize>)
    ensures match r {
        Some(i) => i < s@.len() && s@[i as int] == v && forall|j: int| 0 <= j < i ==> s@[j] != v,
        None => forall|j: int| 0 <= j < s@.len() ==> s@[j] != v,
    }
{ s.iter().position(|c| *c == v) }

#[verifier::external_body]
pub fn slice_take_position(s: &[u8], n: usize, v: u8) -> (r: Option<usize>)
    ensures match r {
        Some(i) => i < s@.len() && i < n && s@[i as int] == v && forall|j: int| 0 <= j < i ==> s@[j] != v,
        None => forall|j: int| 0 <= j < s@.len() && j < n ==> s@[j] != v,
    }
{ s.iter().take(n).position(|c| *c == v) }

// N9 stub: `std::array::from_fn(cb)`; assumed: returns an array (its N elements are placeholders)
#[verifier::external_body]
pub fn array_from_fn<T, const N: usize, F: FnMut(usize) -> T>(cb: F) -> (r: [T; N])
{ std::array::from_fn(cb) }

/// index of the first CR in b
pub open spec fn first_cr(b: Seq<u8>) -> Option<int>
    decreases b.len()
{
    if b.len() == 0 { None } else if b[0] == 13u8 { Some(0int) } else {
        match first_cr(b.subrange(1, b.len() as int)) { Some(i) => Some(i + 1), None => None }
    }
}
/// what `find_crlf` computes: the first CR, provided the byte after it is LF
pub open spec fn spec_find_crlf(b: Seq<u8>) -> Option<int> {
    match first_cr(b) { Some(cr) => if cr + 1 < b.len() && b[cr + 1] == 10u8 { Some(cr) } else { None }, None => None }
}
''')

PROOF('lemma_first_cr', ['C07', 'C12'], '''
pub proof fn lemma_first_cr(b: Seq<u8>)
    ensures
        match first_cr(b) {
            Some(i) => 0 <= i < b.len() && b[i] == 13u8 && forall|j: int| 0 <= j < i ==> b[j] != 13u8,
            None => forall|j: int| 0 <= j < b.len() ==> b[j] != 13u8,
        }
    decreases b.len()
{
    if b.len() == 0 {
    } else if b[0] == 13u8 {
    } else {
        let t = b.subrange(1, b.len() as int);
        lemma_first_cr(t);
        match first_cr(t) {
            Some(i) => {
                assert(b[i + 1] == t[i]);
                assert forall|j: int| 0 <= j < i + 1 implies b[j] != 13u8 by {
                    if j > 0 { assert(b[j] == t[j - 1]); }
                }
            }
            None => {
                assert forall|j: int| 0 <= j < b.len() implies b[j] != 13u8 by {
                    if j > 0 { assert(b[j] == t[j - 1]); }
                }
            }
        }
    }
}
pub proof fn lemma_first_cr_unique(b: Seq<u8>, i: int)
    requires 0 <= i < b.len(), b[i] == 13u8, forall|j: int| 0 <= j < i ==> b[j] != 13u8,
    ensures first_cr(b) == Some(i)
{
    lemma_first_cr(b);
    match first_cr(b) {
        Some(k) => { if k < i { assert(b[k] != 13u8); } else if k > i { assert(b[i] != 13u8); } }
        None => { assert(b[i] != 13u8); }
    }
}
''')

FN('find_crlf', props=['C07', 'C12', 'C01'], ret='r',
   ensures=[
       ('aux.find_crlf.exact', 'match r { Some(i) => spec_find_crlf(b@) == Some(i as int) && i + 1 < b.len(), None => spec_find_crlf(b@) is None }'),
   ],
   head='proof { axiom_slice_len(b); lemma_first_cr(b@); }',
   rewrites=[('N9', "b.iter().position(|c| *c == b'\\r')", "slice_position(b, b'\\r')")],
   after=[("slice_position(b, b'\\r')?;", "proof { lemma_first_cr_unique(b@, cr as int); }")],
   )

# ----------------------------------------------------------------------------- compare_lowercase_ascii (N8: chars().zip())
RAW('''
/// ASCII-case-insensitive equality with an all-lower-case pattern, false on any non-ASCII byte
pub uninterp spec fn spec_compare_lowercase_ascii(a: Seq<u8>, lowercased: Seq<u8>) -> bool;
''')
FN('compare_lowercase_ascii', props=['C06', 'C17'], ret='r', trusted=True,
   ensures=[('assumed.compare_lowercase_ascii', 'r == spec_compare_lowercase_ascii(str_bytes(a), str_bytes(lowercased))')])

# ----------------------------------------------------------------------------- Writer
ITEM('struct Writer')
IMPL("impl<'a> Writer<'a>", raw='''
    /// bytes the underlying buffer will hold when the borrow ends
    #[verifier::prophetic]
    pub open spec fn fin(&self) -> Seq<u8> { final(self.0.inner)@ }
    pub open spec fn cap(&self) -> nat { self.0.inner@.len() }
    pub open spec fn wf(&self) -> bool { self.0.pos <= self.0.inner@.len() }
    /// bytes emitted so far
    pub open spec fn out(&self) -> Seq<u8> { self.0.inner@.subrange(0, self.0.pos as int) }

    /// the effect of appending `bytes` through std::io::Write::write_all on a Cursor<&mut [u8]>
    #[verifier::prophetic]
    pub open spec fn appended(&self, post: &Self, bytes: Seq<u8>, r: io::Result<()>) -> bool {
        &&& post.cap() == self.cap()
        &&& post.fin() == self.fin()
        &&& post.wf()
        &&& (r is Ok <==> self.out().len() + bytes.len() <= self.cap())
        &&& (r is Ok ==> post.out() == self.out() + bytes)
        &&& (r is Err ==> self.out().is_prefix_of(post.out()))
    }
    /// same observable state (bytes emitted, capacity, final buffer)
    #[verifier::prophetic]
    pub open spec fn state_eq(&self, o: &Self) -> bool {
        self.out() == o.out() && self.cap() == o.cap() && self.fin() == o.fin() && self.wf() && o.wf()
    }
    /// frame of any operation on a writer
    #[verifier::prophetic]
    pub open spec fn same_buffer(&self, post: &Self) -> bool {
        post.cap() == self.cap() && post.fin() == self.fin() && post.wf()
    }

    // N7: `impl io::Write for Writer` (delegating to Cursor<&mut [u8]>) is replaced by
    // this assumed contract of the provided method `write_all`.
    #[verifier::external_body]
    pub fn write_all(&mut self, buf: &[u8]) -> (r: io::Result<()>)
        requires old(self).wf()
        ensures old(self).appended(final(self), buf@, r)
    { unimplemented!() }

    /// `io::Write::write` of a Cursor<&mut [u8]>: a SHORT write of what fits, never an error
    #[verifier::external_body]
    pub fn write(&mut self, buf: &[u8]) -> (r: io::Result<usize>)
        requires old(self).wf()
        ensures old(self).same_buffer(final(self)), r is Ok,
            r->Ok_0 == crate::min2(buf@.len() as int, old(self).cap() - old(self).out().len()),
            final(self).out() == old(self).out() + buf@.subrange(0, r->Ok_0 as int)
    { unimplemented!() }

    // N4: one stub per distinct `write!` format string of the crate.
    /// write!(w, "{:0x?}\\r\\n", n)
    #[verifier::external_body]
    pub fn fmt_hex_crlf(&mut self, n: usize) -> (r: io::Result<()>)
        requires old(self).wf()
        ensures old(self).appended(final(self), hex_digits(n as nat) + crlf(), r)
    { unimplemented!() }

    /// write!(w, "\\r\\n")
    #[verifier::external_body]
    pub fn fmt_crlf(&mut self) -> (r: io::Result<()>)
        requires old(self).wf()
        ensures old(self).appended(final(self), crlf(), r)
    { unimplemented!() }
''')
FN('new', props=['C02', 'C03', 'C04', 'C18', 'C19'], ret='w',
   ensures=[('aux.Writer.new', 'w.fin() == final(output)@ && w.cap() == old(output)@.len() && w.0.pos == 0 && w.wf() && w.out() =~= Seq::<u8>::empty()')])
FN('len', props=['C02', 'C03', 'C04', 'C18', 'C19'], ret='r',
   requires=[('aux.Writer.len.wf', 'self.wf()')],
   ensures=[('aux.Writer.len', 'r == self.out().len() && r <= self.cap()')],
   head='proof { axiom_slice_len(self.0.inner); }')
FN('available', props=['C02', 'C03', 'C04', 'C18', 'C19'], ret='r',
   requires=[('aux.Writer.available.wf', 'self.wf()')],
   ensures=[('aux.Writer.available', 'r == self.cap() - self.out().len()')],
   head='proof { axiom_slice_len(self.0.inner); }')
FN('try_write', props=['C02', 'C03', 'C04', 'C18', 'C19'], ret='success',
   requires=[
       ('aux.try_write.wf', 'old(self).wf()'),
       # (the premise `state_eq` lets closures written inside loops pin their pre-state to ghost snapshots:
       #  this Verus version mis-handles old() in the ensures of a closure created inside a loop)
       ('aux.try_write.block_requires', 'forall|w: &mut Self| w.state_eq(old(self)) ==> #[trigger] block.requires((w,))'),
       ('aux.try_write.block_frame', 'forall|w: &mut Self, r: io::Result<()>| w.state_eq(old(self)) && #[trigger] block.ensures((w,), r) ==> w.same_buffer(final(w)) && w.out().is_prefix_of(final(w).out())'),
   ],
   ensures=[
       ('aux.try_write.frame', 'old(self).same_buffer(final(self))'),
       ('aux.try_write.rollback', '!success ==> final(self).out() == old(self).out()'),
       ('aux.try_write.block_ran', 'exists|w2: &mut Self, r: io::Result<()>| w2.state_eq(old(self)) && (r is Ok <==> success) && (success ==> final(w2).state_eq(final(self))) && #[trigger] block.ensures((w2,), r)'),
   ],
   head='proof { axiom_slice_len(self.0.inner); }',
   )
END()

RAW('''
// N3: logging is not part of any property; the call is kept so that its argument
// expression (a slice) stays bounds-checked.
pub fn log_data(data: &[u8]) {}
''')

# ----------------------------------------------------------------------------- ArrayVec
ITEM('struct ArrayVec', fields_pub=False)
IMPL('impl<T, const N: usize> Deref for ArrayVec<T, N>')
RAW('    type Target = [T];')
FN('deref', props=['C10', 'C12'], ret='r',
   ensures=[('aux.ArrayVec.deref', 'r@ == self.view() && r@.len() <= N')],
   head='proof { use_type_invariant(self); }')
END()
IMPL('impl<T, const N: usize> ArrayVec<T, N>', raw='''
    #[verifier::type_invariant]
    pub closed spec fn inv(self) -> bool { self.len <= N }
    /// the live elements (fields stay private: a type invariant requires it)
    pub closed spec fn view(&self) -> Seq<T> { self.arr@.subrange(0, self.len as int) }
''')
# from_fn: verified from its real body; only `std::array::from_fn(cb)` is an N9 stub (Verus has no
# spec for it and no FnMut support): assumed to return SOME [T; N] - what the placeholders are is
# irrelevant, view() only exposes the first `len` of them
FN('from_fn', props=['C10', 'C12', 'C16'], ret='r',
   rewrites=[('N9', 'std::array::from_fn(cb)', 'array_from_fn::<T, N, _>(cb)')],
   ensures=[('C10/C12/C16.ArrayVec.from_fn_starts_empty', 'r.view() =~= Seq::<T>::empty()')])
FN('push', props=['C10', 'C12', 'C16'],
   requires=[('C12.arrayvec_push_capacity', 'old(self).view().len() < N')],
   ensures=[('aux.ArrayVec.push', 'final(self).view() == old(self).view().push(value)')],
   head='proof { use_type_invariant(&*self); }')
FN('truncate', props=['C12'],
   requires=[('aux.ArrayVec.truncate.len', 'len <= old(self).view().len()')],
   ensures=[('aux.ArrayVec.truncate', 'final(self).view() == old(self).view().subrange(0, len as int)')],
   head='proof { use_type_invariant(&*self); }')
END()
