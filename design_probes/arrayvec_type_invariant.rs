use vstd::prelude::*;
use std::ops::{Deref, DerefMut};
verus! {

pub struct ArrayVec<T, const N: usize> {
    len: usize,
    arr: [T; N],
}

impl<T, const N: usize> Deref for ArrayVec<T, N> {
    type Target = [T];

    fn deref(&self) -> &Self::Target {
        proof { use_type_invariant(self); }
        &self.arr[..self.len]
    }
}

impl<T, const N: usize> ArrayVec<T, N> {
    #[verifier::type_invariant]
    pub closed spec fn inv(self) -> bool { self.len <= N }
    pub closed spec fn spec_len(&self) -> usize { self.len }
    #[verifier::external_body]
    pub fn from_fn(cb: impl FnMut(usize) -> T) -> (r: Self) ensures r.spec_len() == 0 {
        Self {
            len: 0,
            arr: std::array::from_fn(cb),
        }
    }

    /// Add a value T.
    pub fn push(&mut self, value: T) 
        requires old(self).spec_len() < N
        ensures final(self).spec_len() == old(self).spec_len() + 1
    {
        self.arr[self.len] = value;
        self.len += 1;
    }

    pub fn truncate(&mut self, len: usize) 
        requires len <= old(self).spec_len()
    {
        assert!(len <= self.len);
        self.len = len;
    }
}

#[derive(Clone, Copy, PartialEq, Eq)]
pub enum CloseReason { Http10, Client }

fn user(v: &ArrayVec<CloseReason, 4>) -> Option<&CloseReason> 
{
    v.first()
}

} // verus!
fn main() {}
