use vstd::prelude::*;
use vstd::std_specs::iter::IteratorSpec;
use core::str;
verus! {

#[derive(Debug)]
pub enum Error { ChunkLenNotAscii, ChunkLenNotANumber, ChunkExpectedCrLf }

#[verifier::external_type_specification]
#[verifier::external_body]
pub struct ExUtf8Error(core::str::Utf8Error);
#[verifier::external_type_specification]
#[verifier::external_body]
pub struct ExParseIntError(core::num::ParseIntError);

pub uninterp spec fn str_bytes(s: &str) -> Seq<u8>;
pub uninterp spec fn is_utf8(b: Seq<u8>) -> bool;
pub uninterp spec fn trim_bytes(b: Seq<u8>) -> Seq<u8>;
pub uninterp spec fn parse_hex(b: Seq<u8>) -> Option<usize>;

pub assume_specification<'a> [core::str::from_utf8] (v: &'a [u8]) -> (r: Result<&'a str, core::str::Utf8Error>)
    ensures r is Ok <==> is_utf8(v@), r is Ok ==> str_bytes(r->Ok_0) == v@;
pub assume_specification<'a> [str::trim] (s: &'a str) -> (r: &'a str)
    ensures str_bytes(r) == trim_bytes(str_bytes(s));
pub assume_specification [usize::from_str_radix] (s: &str, radix: u32) -> (r: Result<usize, core::num::ParseIntError>)
    ensures radix == 16 ==> (match parse_hex(str_bytes(s)) { Some(n) => r == Ok::<usize, core::num::ParseIntError>(n), None => r is Err });

#[verifier::external_body]
pub proof fn axiom_slice_len<T>(b: &[T]) ensures b@.len() <= usize::MAX {}

pub open spec fn rank(d: Dechunker) -> int { match d { Dechunker::Ending => 2, Dechunker::Trailer => 1, Dechunker::Size => 3, Dechunker::CrLf => 3, Dechunker::Chunk(_) => 3, Dechunker::Ended => 0 } }
// contract of util::find_crlf (verified in its own module)
pub open spec fn first_cr(b: Seq<u8>) -> Option<int> 
    decreases b.len()
{
    if b.len() == 0 { None } else if b[0] == 13u8 { Some(0int) } else {
        match first_cr(b.subrange(1, b.len() as int)) { Some(i) => Some(i + 1), None => None }
    }
}
pub open spec fn spec_find_crlf(b: Seq<u8>) -> Option<int> {
    match first_cr(b) { Some(cr) => if cr + 1 < b.len() && b[cr + 1] == 10u8 { Some(cr) } else { None }, None => None }
}
#[verifier::external_body]
pub fn find_crlf(b: &[u8]) -> (r: Option<usize>)
    ensures match r { Some(i) => spec_find_crlf(b@) == Some(i as int) && i + 1 < b.len(), None => spec_find_crlf(b@) is None }
{ unimplemented!() }

// position of ';' among the first 100 bytes (N9-style stub for `src.iter().take(100).position(|c| *c == b';')`)
pub uninterp spec fn spec_meta(b: Seq<u8>) -> Option<int>;
#[verifier::external_body]
pub fn meta_pos(b: &[u8]) -> (r: Option<usize>)
    ensures match r { Some(i) => spec_meta(b@) == Some(i as int) && i < b.len() && i < 100, None => spec_meta(b@) is None }
{ unimplemented!() }

#[derive(Debug, Clone, Copy, PartialEq, Eq)]
pub enum Dechunker {
    Size,
    Chunk(usize),
    CrLf,
    Ending,
    Trailer,
    Ended,
}

pub struct Pos {
    pub index_in: usize,
    pub index_out: usize,
}

impl Dechunker {
    pub fn new() -> Self {
        Dechunker::Size
    }

    pub fn parse_input(&mut self, src: &[u8], dst: &mut [u8]) -> (r: Result<(usize, usize), Error>)
        requires !(*old(self) is Trailer), (*old(self) is Chunk ==> old(self)->Chunk_0 > 0),
        ensures final(dst).len() == old(dst).len(),
            r is Ok ==> r->Ok_0.0 <= src.len() && r->Ok_0.1 <= old(dst).len() && !(*final(self) is Trailer) && (*final(self) is Chunk ==> final(self)->Chunk_0 > 0),
    {
        let mut pos = Pos {
            index_in: 0,
            index_out: 0,
        };

        loop 
            invariant_except_break !(*self is Trailer) || (spec_find_crlf(src@.subrange(pos.index_in as int, src.len() as int)) matches Some(i) && i > 0),
            invariant pos.index_in <= src.len(), pos.index_out <= dst.len(), dst.len() == old(dst).len(), 
                (*self is Chunk ==> self->Chunk_0 > 0),
            ensures !(*self is Trailer),
            decreases src.len() - pos.index_in, rank(*self)
        {
            let more = match self {
                Dechunker::Size => self.read_size(src, &mut pos)?,
                Dechunker::Chunk(_) => self.read_data(src, dst, &mut pos)?,
                Dechunker::CrLf => self.expect_crlf(src, &mut pos)?,
                Dechunker::Ending => self.trailer_or_ended(src, &mut pos)?,
                Dechunker::Trailer => self.trailer(src, &mut pos)?,
                Dechunker::Ended => false,
            };

            if !more {
                break;
            }
        }

        Ok((pos.index_in, pos.index_out))
    }

    pub fn is_on_chunk_boundary(&self) -> bool {
        *self == Self::Size
    }

    pub fn is_ended(&self) -> bool {
        matches!(self, Self::Ended)
    }

    pub fn read_size(&mut self, src: &[u8], pos: &mut Pos) -> (r: Result<bool, Error>)
        requires old(pos).index_in <= src.len(), *old(self) is Size,
        ensures final(pos).index_out == old(pos).index_out, final(pos).index_in <= src.len(), final(pos).index_in >= old(pos).index_in,
            r is Ok && r->Ok_0 ==> final(pos).index_in > old(pos).index_in && (*final(self) is Ending || (*final(self) is Chunk && final(self)->Chunk_0 > 0)),
            r is Ok && !r->Ok_0 ==> *final(self) == *old(self) && *final(pos) == *old(pos),
    {
        proof { axiom_slice_len(src); }
        let src = &src[pos.index_in..];

        let i = match find_crlf(src) {
            Some(v) => v,
            None => return Ok(false),
        };

        const SANITY_CHECK: usize = 20;

        // Some sanity check for how long the chunk length is
        if i > SANITY_CHECK {
            return Err(Error::ChunkExpectedCrLf);
        }
        let maybe_meta = meta_pos(src);

        let len_end = maybe_meta.unwrap_or(SANITY_CHECK + 1).min(i);
        let len_str = str::from_utf8(&src[..len_end])
            .map_err(|_e| Error::ChunkLenNotAscii)?
            .trim();

        let len = usize::from_str_radix(len_str, 16).map_err(|_e| Error::ChunkLenNotANumber)?;

        pos.index_in += i + 2;
        *self = if len == 0 {
            Self::Ending
        } else {
            Self::Chunk(len)
        };

        Ok(true)
    }

    pub fn read_data(&mut self, src: &[u8], dst: &mut [u8], pos: &mut Pos) -> (r: Result<bool, Error>)
        requires old(pos).index_in <= src.len(), old(pos).index_out <= old(dst).len(), *old(self) is Chunk, old(self)->Chunk_0 > 0,
        ensures final(dst).len() == old(dst).len(), r is Ok,
            final(pos).index_in <= src.len(), final(pos).index_out <= old(dst).len(),
            ({ let n = final(pos).index_in - old(pos).index_in; n >= 0 && final(pos).index_out - old(pos).index_out == n
               && (r->Ok_0 <==> n > 0)
               && final(dst)@.subrange(old(pos).index_out as int, final(pos).index_out as int) == src@.subrange(old(pos).index_in as int, final(pos).index_in as int)
               && (if n == old(self)->Chunk_0 { *final(self) is CrLf } else { *final(self) is Chunk && final(self)->Chunk_0 == old(self)->Chunk_0 - n }) }),
    {
        let src = &src[pos.index_in..];
        let dst = &mut dst[pos.index_out..];

        let left = match self {
            Self::Chunk(v) => v,
            _ => unreachable!(),
        };

        // Read the smallest amount of input/output or length left of chunk.
        let to_read = src.len().min(dst.len()).min(*left);

        dst[..to_read].copy_from_slice(&src[..to_read]);
        pos.index_in += to_read;
        pos.index_out += to_read;
        *left -= to_read;

        if *left == 0 {
            *self = Self::CrLf;
        }

        Ok(to_read > 0)
    }

    pub fn expect_crlf(&mut self, src: &[u8], pos: &mut Pos) -> (r: Result<bool, Error>)
        requires old(pos).index_in <= src.len(), *old(self) is CrLf,
        ensures final(pos).index_out == old(pos).index_out, final(pos).index_in <= src.len(),
            r is Ok ==> !r->Ok_0 && ((final(pos).index_in == old(pos).index_in + 2 && *final(self) is Size) || (*final(pos) == *old(pos) && *final(self) is CrLf)),
    {
        proof { axiom_slice_len(src); }
        let src = &src[pos.index_in..];

        let i = match find_crlf(src) {
            Some(v) => v,
            None => return Ok(false),
        };

        if i > 0 {
            return Err(Error::ChunkExpectedCrLf);
        }

        pos.index_in += 2;
        *self = Self::Size;

        Ok(false)
    }

    pub fn trailer_or_ended(&mut self, src: &[u8], pos: &mut Pos) -> (r: Result<bool, Error>)
        requires old(pos).index_in <= src.len(), *old(self) is Ending,
        ensures final(pos).index_out == old(pos).index_out, final(pos).index_in <= src.len(), r is Ok,
            !r->Ok_0 ==> *final(pos) == *old(pos) && *final(self) is Ending,
            r->Ok_0 ==> (final(pos).index_in == old(pos).index_in + 2 && *final(self) is Ended) 
                     || (*final(pos) == *old(pos) && *final(self) is Trailer && (spec_find_crlf(src@.subrange(old(pos).index_in as int, src.len() as int)) matches Some(i) && i > 0)),
    {
        proof { axiom_slice_len(src); }
        let src = &src[pos.index_in..];

        let i = match find_crlf(src) {
            Some(v) => v,
            None => return Ok(false),
        };

        if i == 0 {
            pos.index_in += 2;
            *self = Self::Ended;
        } else {
            // Non-crlf before
            *self = Self::Trailer;
        }

        Ok(true)
    }

    pub fn trailer(&mut self, src: &[u8], pos: &mut Pos) -> (r: Result<bool, Error>)
        requires old(pos).index_in <= src.len(), *old(self) is Trailer,
            (spec_find_crlf(src@.subrange(old(pos).index_in as int, src.len() as int)) matches Some(i) && i > 0),
        ensures final(pos).index_out == old(pos).index_out, final(pos).index_in <= src.len(), r is Ok, r->Ok_0,
            final(pos).index_in > old(pos).index_in, *final(self) is Ending,
    {
        proof { axiom_slice_len(src); }
        let src = &src[pos.index_in..];

        let i = match find_crlf(src) {
            Some(v) => v,
            None => return Ok(false),
        };
        assert!(i > 0);

        // advance the trailer, and 2 for the crlf.
        pos.index_in += i + 2;
        *self = Self::Ending;

        Ok(true)
    }
}


} // verus!
fn main() {}
