use vstd::prelude::*;
verus! {
pub enum Error { Bad }
fn header_defined<'a>(
        http10: bool,
        header_lookup: &'a impl Fn(&str) -> Option<&'a str>,
    ) -> Result<bool, Error> {
        let mut chunked = false;
        if let Some(value) = header_lookup("content-length") {
            chunked = true;
        }
        Ok(chunked && !http10)
}
}
fn main() {}
