use vstd::prelude::*;
use vstd::std_specs::iter::IteratorSpec;
verus! {

pub assume_specification<'a, T, P> [<std::slice::Iter<'a, T> as std::iter::Iterator>::position] (it: &mut std::slice::Iter<'a, T>, pred: P) -> (r: std::option::Option<usize>)
    where P: std::ops::FnMut(&'a T) -> bool, std::slice::Iter<'a, T>: std::marker::Sized,
    requires forall|x: &'a T| #[trigger] pred.requires((x,)),
    ensures
        match r {
            Some(i) => i < old(it).remaining().len() && pred.ensures((old(it).remaining()[i as int],), true)
                && forall|j: int| 0 <= j < i ==> pred.ensures((#[trigger] old(it).remaining()[j],), false),
            None => forall|j: int| 0 <= j < old(it).remaining().len() ==> pred.ensures((#[trigger] old(it).remaining()[j],), false),
        }
;

#[verifier::external_body]
pub proof fn axiom_slice_len<T>(b: &[T]) ensures b@.len() <= usize::MAX {}

pub(crate) fn find_crlf(b: &[u8]) -> (r: Option<usize>)
    ensures match r {
        Some(i) => i + 1 < b.len() && b[i as int] == 13u8 && b[i + 1] == 10u8 && forall|j: int| 0 <= j < i ==> b[j] != 13u8,
        None => forall|j: int| 0 <= j && j + 1 < b.len() ==> !(#[trigger] b[j] == 13u8 && b[j+1] == 10u8) || exists|k: int| 0 <= k < j && b[k] == 13u8,
    }
{
    proof { axiom_slice_len(b); }
    let cr = b.iter().position(|c: &u8| -> (r: bool) ensures r == (*c == 13u8) { *c == b'\r' })?;
    assert(cr < b@.len());
    assert(b@[cr as int] == 13u8);
    let maybe_lf = b.get(cr + 1)?;
    if *maybe_lf == b'\n' {
        Some(cr)
    } else {
        None
    }
}

} // verus!
fn main() {}
