use vstd::prelude::*;
verus! {
#[derive(Debug)]
pub enum Error { BadContentLengthHeader, TooManyContentLengthHeaders }

#[derive(PartialEq, Eq)]
pub enum MInner { Get, Head, Post, Put, Delete, Connect, Options, Trace, Patch, Ext(u64) }
#[derive(PartialEq, Eq)]
pub struct Method(pub MInner);
impl Method {
    pub const HEAD: Method = Method(MInner::Head);
    pub const CONNECT: Method = Method(MInner::Connect);
}
impl<'a> PartialEq<Method> for &'a Method {
    #[verifier::external_body]
    fn eq(&self, other: &Method) -> (r: bool) ensures r == (**self == *other) { unimplemented!() }
}
#[verifier::external_type_specification]
#[verifier::external_body]
pub struct ExParseIntError(core::num::ParseIntError);

#[verifier::external_trait_specification]
pub trait ExFromStr: Sized {
    type ExternalTraitSpecificationFor: core::str::FromStr;
    type Err;
    fn from_str(s: &str) -> Result<Self, Self::Err>;
}
pub uninterp spec fn parse_any<F>(s: &str) -> Option<F>;
pub open spec fn parse_u64(s: &str) -> Option<u64> { parse_any::<u64>(s) }
pub uninterp spec fn te_declares_chunked(s: &str) -> bool;
pub assume_specification<F: core::str::FromStr> [str::parse::<F>] (s: &str) -> (r: Result<F, <F as core::str::FromStr>::Err>)
    ensures match parse_any::<F>(s) { Some(n) => r is Ok && r->Ok_0 == n, None => r is Err };
#[verifier::external_body]
pub fn te_declares_chunked_exec(s: &str) -> (r: bool) ensures r == te_declares_chunked(s) { unimplemented!() }

#[derive(Clone, Copy, PartialEq, Eq, Structural)]
pub enum Dechunker { Size, Chunk(usize), CrLf, Ending, Trailer, Ended }
impl Dechunker { pub fn new() -> (r: Self) ensures r == Dechunker::Size { Dechunker::Size } }

#[derive(Clone, Copy, PartialEq, Eq, Structural)]
pub enum BodyReader { NoBody, LengthDelimited(u64), Chunked(Dechunker), CloseDelimited }

pub enum Mode { NoBody, Length(u64), Chunked, Close }
pub open spec fn view_mode(r: BodyReader) -> Mode { match r { BodyReader::NoBody => Mode::NoBody, BodyReader::LengthDelimited(n) => Mode::Length(n), BodyReader::Chunked(_) => Mode::Chunked, BodyReader::CloseDelimited => Mode::Close } }

// written from the statement of C06
pub open spec fn framing(m: Method, status: u16, http10: bool, cl: Option<&str>, te: Option<&str>) -> Option<Mode> {
    let te_chunked = te matches Some(v) && te_declares_chunked(v);
    if cl matches Some(v) && parse_u64(v) is None { None }
    else if m == Method::HEAD || (200 <= status <= 299 && m == Method::CONNECT) || (100 <= status <= 199) || status == 204 || status == 304 { Some(Mode::NoBody) }
    else if 300 <= status <= 399 && status != 304 && cl is None && !(te_chunked && !http10) { Some(Mode::NoBody) }
    else if te_chunked && !http10 { Some(Mode::Chunked) }
    else if cl is Some { Some(Mode::Length(parse_u64(cl->Some_0)->Some_0)) }
    else { Some(Mode::Close) }
}
pub uninterp spec fn hdr(name: &str) -> Option<&'static str>;

impl BodyReader {
    pub fn for_response<'a>(
        http10: bool,
        method: &Method,
        status_code: u16,
        header_lookup: &'a impl Fn(&str) -> Option<&'a str>,
    ) -> (r: Result<Self, Error>) 
        requires forall|s: &str| #[trigger] header_lookup.requires((s,)),
            forall|s: &str, o: Option<&'a str>| #[trigger] header_lookup.ensures((s,), o) ==> o == hdr(s),
        ensures match framing(*method, status_code, http10, hdr("content-length"), hdr("transfer-encoding")) { Some(m) => r is Ok && view_mode(r->Ok_0) == m, None => r is Err }
    {
        let is_success = (200..=299).contains(&status_code);
        let is_informational = (100..=199).contains(&status_code);
        let is_redirect = (300..=399).contains(&status_code) && status_code != 304;

        let header_defined = Self::header_defined(http10, header_lookup)?;

        // Implicitly we know that CloseDelimited means no header indicated that
        // there was a body.
        let has_body_header = header_defined != Self::CloseDelimited;

        let has_no_body =
            // https://datatracker.ietf.org/doc/html/rfc2616#section-4.3
            // All responses to the HEAD request method
            // MUST NOT include a message-body, even though the presence of entity-
            // header fields might lead one to believe they do.
            method == Method::HEAD ||
            // A client MUST ignore any Content-Length or Transfer-Encoding
            // header fields received in a successful response to CONNECT.
            is_success && method == Method::CONNECT ||
            // All 1xx (informational), 204 (no content), and 304 (not modified) responses
            // MUST NOT include a message-body.
            is_informational ||
            matches!(status_code, 204 | 304) ||
            // Surprisingly, redirects may have a body. Whether they do we need to
            // check the existence of content-length or transfer-encoding headers.
            is_redirect && !has_body_header;

        if has_no_body {
            return Ok(Self::NoBody);
        }

        // https://datatracker.ietf.org/doc/html/rfc2616#section-4.3
        // All other responses do include a message-body, although it MAY be of zero length.
        Ok(header_defined)
    }

    pub fn header_defined<'a>(
        http10: bool,
        header_lookup: &'a impl Fn(&str) -> Option<&'a str>,
    ) -> (r: Result<Self, Error>) 
        requires forall|s: &str| #[trigger] header_lookup.requires((s,)),
            forall|s: &str, o: Option<&'a str>| #[trigger] header_lookup.ensures((s,), o) ==> o == hdr(s),
        ensures ({ let cl = hdr("content-length"); let te = hdr("transfer-encoding");
            let te_chunked = te matches Some(v) && te_declares_chunked(v);
            if cl matches Some(v) && parse_u64(v) is None { r is Err }
            else if te_chunked && !http10 { r is Ok && r->Ok_0 is Chunked }
            else if cl is Some { r == Ok::<Self, Error>(BodyReader::LengthDelimited(parse_u64(cl->Some_0)->Some_0)) }
            else { r == Ok::<Self, Error>(BodyReader::CloseDelimited) } })
    {
        let mut content_length: Option<u64> = None;
        let mut chunked = false;

        // for head in headers {
        if let Some(value) = header_lookup("content-length") {
            let v = value
                .parse::<u64>()
                .map_err(|_e| Error::BadContentLengthHeader)?;
            if content_length.is_some() {
                return Err(Error::TooManyContentLengthHeaders);
            }
            content_length = Some(v);
        }

        if let Some(value) = header_lookup("transfer-encoding") {
            // Header can repeat, stop looking if we found "chunked"
            chunked = te_declares_chunked_exec(value);
        }

        if chunked && !http10 {
            // https://datatracker.ietf.org/doc/html/rfc2616#section-4.4
            // Messages MUST NOT include both a Content-Length header field and a
            // non-identity transfer-coding. If the message does include a non-
            // identity transfer-coding, the Content-Length MUST be ignored.
            return Ok(Self::Chunked(Dechunker::new()));
        }

        if let Some(len) = content_length {
            return Ok(Self::LengthDelimited(len));
        }

        Ok(Self::CloseDelimited)
    }

}
} // verus!
fn main() {}
