use vstd::prelude::*;
use vstd::std_specs::iter::IteratorSpec;
verus! {
pub struct HeaderName(pub u8);
pub struct HeaderValue(pub u8);

fn count<'a, I>(headers: I) -> (n: usize)
where
    I: Iterator<Item = (&'a HeaderName, &'a HeaderValue)>,
    requires headers.obeys_prophetic_iter_laws(), headers.decrease() is Some, headers.remaining().len() < 1000,
    ensures n == headers.remaining().len(),
{
    let mut n = 0usize;
    let mut it = headers;
    loop 
        invariant it.obeys_prophetic_iter_laws(), it.decrease() is Some, n + it.remaining().len() == headers.remaining().len(), headers.remaining().len() < 1000,
        ensures n == headers.remaining().len()
        decreases it.decrease().unwrap()
    {
        let h = match it.next() { Some(h) => h, None => break };
        n += 1;
    }
    n
}
}
fn main() {}
