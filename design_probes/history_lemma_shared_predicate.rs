use vstd::prelude::*;
verus! {

pub open spec fn min3(a: int, b: int, c: int) -> int { let m = if a < b { a } else { b }; if m < c { m } else { c } }

// one call of the sized body writer, as stated by its contract (shared predicate:
// this is what `ensures` of BodyWriter::write (Sized branch) would say)
pub struct Step { pub input: Seq<u8>, pub avail: int, pub out: Seq<u8>, pub used: int }

pub open spec fn post_write_sized(left: int, st: Step, left2: int) -> bool {
    let n = min3(st.input.len() as int, st.avail, left);
    &&& st.avail >= 0
    &&& st.used == n
    &&& st.out == st.input.subrange(0, n)
    &&& left2 == left - n
}

pub open spec fn trace_ok(left: int, steps: Seq<Step>, left_end: int) -> bool
    decreases steps.len()
{
    if steps.len() == 0 { left_end == left } else {
        exists|mid: int| #[trigger] post_write_sized(left, steps[0], mid) && trace_ok(mid, steps.subrange(1, steps.len() as int), left_end)
    }
}

pub open spec fn concat_out(steps: Seq<Step>) -> Seq<u8> decreases steps.len() {
    if steps.len() == 0 { Seq::empty() } else { steps[0].out + concat_out(steps.subrange(1, steps.len() as int)) }
}
pub open spec fn concat_consumed(steps: Seq<Step>) -> Seq<u8> decreases steps.len() {
    if steps.len() == 0 { Seq::empty() } else { steps[0].input.subrange(0, steps[0].used) + concat_consumed(steps.subrange(1, steps.len() as int)) }
}

// C04 history lemma: any schedule of writes forwards exactly the consumed bytes and never exceeds N
pub proof fn lemma_c04_history(n0: int, steps: Seq<Step>, left_end: int)
    requires n0 >= 0, trace_ok(n0, steps, left_end),
    ensures concat_out(steps) == concat_consumed(steps),
        0 <= left_end <= n0,
        concat_out(steps).len() == n0 - left_end,
    decreases steps.len()
{
    if steps.len() == 0 {
    } else {
        let mid = choose|mid: int| #[trigger] post_write_sized(n0, steps[0], mid) && trace_ok(mid, steps.subrange(1, steps.len() as int), left_end);
        lemma_c04_history(mid, steps.subrange(1, steps.len() as int), left_end);
    }
}

} // verus!
fn main() {}
