use vstd::prelude::*;
verus! {

pub mod http {
    use vstd::prelude::*;
    #[derive(PartialEq, Eq)]
    pub enum MInner { Get, Head, Post, Put, Delete, Connect, Options, Trace, Patch, Ext(u64) }
    #[derive(PartialEq, Eq)]
    pub struct Method(pub MInner);
    impl Method {
        pub const GET: Method = Method(MInner::Get);
        pub const HEAD: Method = Method(MInner::Head);
        pub const POST: Method = Method(MInner::Post);
        pub const PUT: Method = Method(MInner::Put);
        pub const PATCH: Method = Method(MInner::Patch);
    }
    impl<'a> PartialEq<Method> for &'a Method {
        #[verifier::external_body]
        fn eq(&self, other: &Method) -> (r: bool) ensures r == (**self == *other) { unimplemented!() }
    }
}
use http::*;

pub(crate) trait MethodExt {
    fn is_http10(&self) -> bool;
    fn need_request_body(&self) -> bool;
}

impl MethodExt for Method {
    fn is_http10(&self) -> (r: bool) 
        ensures r == (*self == Method::GET || *self == Method::HEAD || *self == Method::POST)
    {
        self == Method::GET || self == Method::HEAD || self == Method::POST
    }
    fn need_request_body(&self) -> bool {
        self == Method::POST || self == Method::PUT || self == Method::PATCH
    }
}

fn f(method: &Method, status_code: u16) -> (r: bool) 
   ensures r == (*method == Method::HEAD || (200 <= status_code <= 299)) 
{
    let is_success = (200..=299).contains(&status_code);
    method == Method::HEAD || is_success || matches!(status_code, 204 | 304)
}

} // verus!
fn main() {}
