use vstd::prelude::*;
use vstd::std_specs::iter::IteratorSpec;
use std::io;
verus! {

#[verifier::external_type_specification]
#[verifier::external_body]
pub struct ExIoError(std::io::Error);

#[verifier::external_body]
pub struct Writer<'a> { inner: std::io::Cursor<&'a mut [u8]> }

pub open spec fn hex_digits(n: nat) -> Seq<u8>
    decreases n
{
    if n < 16 { seq![hex_digit(n)] } else { hex_digits(n / 16).push(hex_digit(n % 16)) }
}
pub open spec fn hex_digit(d: nat) -> u8 { if d < 10 { (48 + d) as u8 } else { (87 + d) as u8 } }

pub open spec fn min3(a:int,b:int,c:int)->int { let m = if a<b {a} else {b}; if m<c {m} else {c} }
pub open spec fn crlf() -> Seq<u8> { seq![13u8, 10u8] }

impl<'a> Writer<'a> {
    pub uninterp spec fn cap(&self) -> nat;
    pub uninterp spec fn out(&self) -> Seq<u8>;   // bytes written so far [0..len)

    #[verifier::external_body]
    pub fn len(&self) -> (r: usize)
        ensures r == self.out().len(), r <= self.cap()
    { unimplemented!() }

    #[verifier::external_body]
    pub fn available(&self) -> (r: usize)
        ensures r == self.cap() - self.out().len()
    { unimplemented!() }

    #[verifier::external_body]
    pub fn rollback(&mut self, pos: usize)
        requires pos <= old(self).out().len()
        ensures final(self).cap() == old(self).cap(), final(self).out() == old(self).out().subrange(0, pos as int)
    { unimplemented!() }

    pub open spec fn appended(&self, post: &Self, bytes: Seq<u8>, r: io::Result<()>) -> bool {
        &&& post.cap() == self.cap()
        &&& (r is Ok <==> self.out().len() + bytes.len() <= self.cap())
        &&& (r is Ok ==> post.out() == self.out() + bytes)
        &&& (r is Err ==> self.out().is_prefix_of(post.out()))
    }

    #[verifier::external_body]
    pub fn write_all(&mut self, buf: &[u8]) -> (r: io::Result<()>)
        ensures old(self).appended(final(self), buf@, r)
    { unimplemented!() }

    #[verifier::external_body]
    pub fn write_hex_crlf(&mut self, n: usize) -> (r: io::Result<()>)
        ensures old(self).appended(final(self), hex_digits(n as nat) + crlf(), r)
    { unimplemented!() }

    #[verifier::external_body]
    pub fn fmt_name_colon(&mut self, n: &HeaderName) -> (r: io::Result<()>)
        ensures old(self).appended(final(self), name_bytes(*n) + seq![58u8, 32u8], r)
    { unimplemented!() }

    #[verifier::external_body]
    pub fn fmt_request_line(&mut self, m: &Method, p: &str, v: Version) -> (r: io::Result<()>)
        ensures old(self).appended(final(self), request_line(*m, p, v), r)
    { unimplemented!() }

    #[verifier::external_body]
    pub fn write_crlf(&mut self) -> (r: io::Result<()>)
        ensures old(self).appended(final(self), crlf(), r)
    { unimplemented!() }

    pub(crate) fn try_write(&mut self, block: impl Fn(&mut Self) -> io::Result<()>) -> (success: bool)
        requires forall|w: &mut Self| #[trigger] block.requires((w,)),
            forall|w: &mut Self, r: io::Result<()>| #[trigger] block.ensures((w,), r) ==> final(w).cap() == w.cap() && w.out().is_prefix_of(final(w).out()),
        ensures
            final(self).cap() == old(self).cap(),
            !success ==> final(self).out() == old(self).out(),
            exists|w2: &mut Self, r: io::Result<()>| *w2 == *old(self) && (r is Ok <==> success) && (success ==> *final(w2) == *final(self)) && #[trigger] block.ensures((w2,), r),
    {
        let pos = self.len();
        let success = (block)(self).is_ok();
        if !success {
            self.rollback(pos);
        }
        success
    }
}


pub struct HeaderName(pub u8);
pub struct HeaderValue(pub u8);
pub struct Method(pub u8);
#[derive(Clone, Copy)]
pub struct Version(pub u8);
pub uninterp spec fn name_bytes(n: HeaderName) -> Seq<u8>;
pub uninterp spec fn value_bytes(n: HeaderValue) -> Seq<u8>;
pub uninterp spec fn request_line(m: Method, p: &str, v: Version) -> Seq<u8>;
impl HeaderValue {
    #[verifier::external_body]
    pub fn as_bytes(&self) -> (r: &[u8]) ensures r@ == value_bytes(*self) { unimplemented!() }
}

#[verifier::external_body]
pub struct HIter<'a> { p: core::marker::PhantomData<&'a u8> }
impl<'a> Iterator for HIter<'a> {
    type Item = (&'a HeaderName, &'a HeaderValue);
    #[verifier::external_body]
    fn next(&mut self) -> Option<Self::Item> { unimplemented!() }
}
impl<'a> vstd::std_specs::iter::IteratorSpecImpl for HIter<'a> {
    uninterp spec fn obeys_prophetic_iter_laws(&self) -> bool;
    uninterp spec fn remaining(&self) -> Seq<(&'a HeaderName, &'a HeaderValue)>;
    uninterp spec fn will_return_none(&self) -> bool;
    uninterp spec fn decrease(&self) -> Option<nat>;
    uninterp spec fn peek(&self, i: int) -> Option<(&'a HeaderName, &'a HeaderValue)>;
}

#[verifier::external_body]
#[verifier::accept_recursive_types(B)]
pub struct AmendedRequest<B> { b: B }
impl<B> AmendedRequest<B> {
    pub uninterp spec fn eff(&self) -> Seq<(HeaderName, HeaderValue)>;
    #[verifier::external_body]
    pub fn headers(&self) -> (it: HIter<'_>) 
        ensures it.obeys_prophetic_iter_laws(), it.decrease() is Some, it.remaining().len() == self.eff().len(),
            forall|i: int| 0 <= i < self.eff().len() ==> *(#[trigger] it.remaining()[i]).0 == self.eff()[i].0 && *it.remaining()[i].1 == self.eff()[i].1
    { unimplemented!() }
    #[verifier::external_body]
    pub fn headers_len(&self) -> (n: usize) ensures n == self.eff().len() { unimplemented!() }
    #[verifier::external_body]
    pub fn prelude(&self) -> (r: (&Method, &str, Version)) { unimplemented!() }
}
#[derive(Debug)]
pub enum Error { OutputOverflow }
pub struct BodyState { pub phase: Phase }
#[derive(Clone, Copy, PartialEq, Eq)]
pub enum Phase {
    SendLine,
    SendHeaders(usize),
    SendBody,
    RecvResponse,
    RecvBody,
}

impl Default for Phase {
    fn default() -> Self {
        Self::SendLine
    }
}

impl Phase {
    fn is_prelude(&self) -> bool {
        matches!(self, Phase::SendLine | Phase::SendHeaders(_))
    }

    fn is_body(&self) -> bool {
        matches!(self, Phase::SendBody)
    }
}

fn try_write_prelude<B>(
    request: &AmendedRequest<B>,
    state: &mut BodyState,
    w: &mut Writer,
) -> (r: Result<(), Error>) 
    requires request.eff().len() >= 1,
    ensures final(w).cap() == old(w).cap()
{
    let at_start = w.len();

    loop 
        invariant w.cap() == old(w).cap(),
        decreases (if state.phase is SendLine { 1int } else { 0int })
    {
        if try_write_prelude_part(request, state, w) {
            continue;
        }

        let written = w.len() - at_start;

        if written > 0 || state.phase.is_body() {
            return Ok(());
        } else {
            return Err(Error::OutputOverflow);
        }
    }
}

fn try_write_prelude_part<Body>(
    request: &AmendedRequest<Body>,
    state: &mut BodyState,
    w: &mut Writer,
) -> (r: bool) 
    requires request.eff().len() >= 1,
    ensures final(w).cap() == old(w).cap(), r ==> old(state).phase is SendLine && !(final(state).phase is SendLine)
{
    match &mut state.phase {
        Phase::SendLine => {
            let success = do_write_send_line(request.prelude(), w);
            if success {
                state.phase = Phase::SendHeaders(0);
            }
            success
        }

        Phase::SendHeaders(index) => {
            let header_count = request.headers_len();
            let all = request.headers();
            let skipped = all.skip(*index);

            do_write_headers(skipped, index, header_count - 1, w);

            if *index == header_count {
                state.phase = Phase::SendBody;
            }
            false
        }

        // We're past the header.
        _ => false,
    }
}

fn do_write_send_line(line: (&Method, &str, Version), w: &mut Writer) -> (r: bool) ensures final(w).cap() == old(w).cap() {
    w.try_write(|w: &mut Writer| -> (r: io::Result<()>) ensures old(w).cap() == final(w).cap(), old(w).out().is_prefix_of(final(w).out()) { w.fmt_request_line(line.0, line.1, line.2) })
}

fn do_write_headers<'a, I>(headers: I, index: &mut usize, last_index: usize, w: &mut Writer)
where
    I: Iterator<Item = (&'a HeaderName, &'a HeaderValue)>,
    requires headers.obeys_prophetic_iter_laws(), headers.decrease() is Some, *old(index) + headers.remaining().len() <= usize::MAX,
    ensures final(w).cap() == old(w).cap(), *final(index) >= *old(index), *final(index) <= *old(index) + headers.remaining().len(),
{
    let ghost total = headers.remaining().len();
    let mut headers = headers;
    loop 
        invariant headers.obeys_prophetic_iter_laws(), headers.decrease() is Some, w.cap() == old(w).cap(),
            *index >= *old(index), *index + headers.remaining().len() <= *old(index) + total, *old(index) + total <= usize::MAX,
        decreases headers.decrease()->Some_0
    {
        let h = match headers.next() { Some(h) => h, None => break };
        let success = w.try_write(|w: &mut Writer| -> (r: io::Result<()>) ensures old(w).cap() == final(w).cap(), old(w).out().is_prefix_of(final(w).out()) {
            w.fmt_name_colon(h.0)?;
            w.write_all(h.1.as_bytes())?;
            w.write_crlf()?;
            if *index == last_index {
                w.write_crlf()?;
            }
            Ok(())
        });

        if success {
            *index += 1;
        } else {
            break;
        }
    }
}


} // verus!
fn main() {}
