use vstd::prelude::*;
verus! {

#[derive(Clone, Copy, PartialEq, Eq)]
pub enum Dechunker { Size, Chunk(usize), CrLf, Ending, Trailer, Ended }

#[derive(Clone, Copy, PartialEq, Eq)]
pub enum BodyReader {
    NoBody,
    LengthDelimited(u64),
    Chunked(Dechunker),
    CloseDelimited,
}

pub enum Error { A, B }
pub open spec fn min3(a:int,b:int,c:int)->int { let m = if a<b {a} else {b}; if m<c {m} else {c} }

impl BodyReader {
    fn read_limit(&mut self, src: &[u8], dst: &mut [u8]) -> (r: Result<(usize, usize), Error>)
        requires (*old(self)) is LengthDelimited,
        ensures
            r is Ok,
            ({ let n = min3(src.len() as int, old(dst).len() as int, old(self)->LengthDelimited_0 as int);
               r->Ok_0.0 == n && r->Ok_0.1 == n
               && *final(self) == BodyReader::LengthDelimited((old(self)->LengthDelimited_0 - n) as u64)
               && final(dst).len() == old(dst).len()
               && final(dst)@.subrange(0, n) == src@.subrange(0, n)
               && final(dst)@.subrange(n, old(dst).len() as int) == old(dst)@.subrange(n, old(dst).len() as int)
            }),
    {
        let left = match self {
            BodyReader::LengthDelimited(v) => v,
            _ => unreachable!(),
        };
        let left_usize = (*left).min(usize::MAX as u64) as usize;

        let to_read = src.len().min(dst.len()).min(left_usize);

        dst[..to_read].copy_from_slice(&src[..to_read]);

        *left -= to_read as u64;

        Ok((to_read, to_read))
    }
}

} // verus!
fn main() {}
