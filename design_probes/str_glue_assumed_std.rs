use vstd::prelude::*;
use core::str;
verus! {

pub enum Error { ChunkLenNotAscii, ChunkLenNotANumber, ChunkExpectedCrLf }

#[verifier::external_type_specification]
#[verifier::external_body]
pub struct ExUtf8Error(core::str::Utf8Error);

#[verifier::external_type_specification]
#[verifier::external_body]
pub struct ExParseIntError(core::num::ParseIntError);

pub uninterp spec fn str_bytes(s: &str) -> Seq<u8>;
pub uninterp spec fn is_utf8(b: Seq<u8>) -> bool;
pub uninterp spec fn trim_bytes(b: Seq<u8>) -> Seq<u8>;
pub uninterp spec fn parse_hex(b: Seq<u8>) -> Option<usize>;

pub assume_specification<'a> [core::str::from_utf8] (v: &'a [u8]) -> (r: Result<&'a str, core::str::Utf8Error>)
    ensures r is Ok <==> is_utf8(v@), r is Ok ==> str_bytes(r->Ok_0) == v@;

pub assume_specification<'a> [str::trim] (s: &'a str) -> (r: &'a str)
    ensures str_bytes(r) == trim_bytes(str_bytes(s));

pub assume_specification [usize::from_str_radix] (s: &str, radix: u32) -> (r: Result<usize, core::num::ParseIntError>)
    ensures radix == 16 ==> (match parse_hex(str_bytes(s)) { Some(n) => r == Ok::<usize, core::num::ParseIntError>(n), None => r is Err });

fn read_len(src: &[u8], len_end: usize) -> (r: Result<usize, Error>)
    requires len_end <= src.len()
    ensures r is Ok ==> is_utf8(src@.subrange(0, len_end as int)) && parse_hex(trim_bytes(src@.subrange(0, len_end as int))) == Some(r->Ok_0)
{
        let len_str = str::from_utf8(&src[..len_end])
            .map_err(|_e| Error::ChunkLenNotAscii)?
            .trim();

        let len = usize::from_str_radix(len_str, 16).map_err(|_e| Error::ChunkLenNotANumber)?;
        Ok(len)
}

} // verus!
fn main() {}
