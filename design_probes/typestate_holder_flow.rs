use vstd::prelude::*;
use std::marker::PhantomData;
use std::mem;
verus! {

pub mod http {
    use vstd::prelude::*;
    #[derive(Clone, PartialEq, Eq)]
    pub struct Method(pub u8);
    impl Method {
        pub const GET: Method = Method(0);
        pub const POST: Method = Method(1);
    }
    #[verifier::external_body]
    #[verifier::accept_recursive_types(B)]
    pub struct Request<B> { b: B }
    impl<B> Request<B> {
        pub uninterp spec fn method_spec(&self) -> Method;
        #[verifier::external_body]
        pub fn method(&self) -> (r: &Method) ensures *r == self.method_spec() { unimplemented!() }
    }
}
use http::*;

pub assume_specification<T> [std::mem::replace] (dest: &mut T, src: T) -> (r: T)
    ensures r == *old(dest), *final(dest) == src;

#[derive(Debug)]
pub enum Error { UnfinishedRequest, Other }

pub struct WithoutBody(());
pub struct WithBody(());
pub struct RecvResponse(());

pub struct BodyState { pub ended: bool, pub skip: bool }

pub struct Call<State, B> {
    pub request: Request<B>,
    pub analyzed: bool,
    pub state: BodyState,
    pub _ph: PhantomData<State>,
}

impl<State, B> Call<State, B> {
    pub fn do_into_receive(self) -> (r: Result<Call<RecvResponse, B>, Error>)
        ensures r is Ok <==> self.state.ended
    {
        if !self.state.ended {
            return Err(Error::UnfinishedRequest);
        }

        Ok(Call {
            request: self.request,
            analyzed: self.analyzed,
            state: BodyState {
                skip: true,
                ..self.state
            },
            _ph: PhantomData,
        })
    }
}

impl<B> Call<WithoutBody, B> {
    pub fn into_send_body(self) -> Call<WithBody, B>
        requires !self.analyzed
    {
        let mut this = self;
        assert!(!this.analyzed);

        this.state.skip = true;

        Call {
            request: this.request,
            analyzed: this.analyzed,
            state: this.state,
            _ph: PhantomData,
        }
    }
    pub fn into_receive(self) -> (r: Result<Call<RecvResponse, B>, Error>) 
        ensures r is Ok <==> self.state.ended
    {
        self.do_into_receive()
    }
}

pub enum CallHolder<B> {
    WithoutBody(Call<WithoutBody, B>),
    WithBody(Call<WithBody, B>),
    RecvResponse(Call<RecvResponse, B>),
    Empty,
}

impl<B> CallHolder<B> {
    pub fn as_with_body(&self) -> &Call<WithBody, B>
        requires self is WithBody
    {
        match self {
            CallHolder::WithBody(v) => v,
            _ => unreachable!(),
        }
    }

    pub fn convert_to_send_body(&mut self) 
        requires (*old(self)) is WithoutBody ==> !old(self)->WithoutBody_0.analyzed
        ensures (*old(self)) is WithoutBody ==> (*final(self)) is WithBody
    {
        if !matches!(self, CallHolder::WithoutBody(_)) {
            return;
        }

        let without = mem::replace(self, CallHolder::Empty);
        let call = match without {
            CallHolder::WithoutBody(call) => call,
            _ => unreachable!(),
        };

        let call = call.into_send_body();
        let _ = mem::replace(self, CallHolder::WithBody(call));
    }
}

pub struct Inner<B> {
    pub call: CallHolder<B>,
    pub should_send_body: bool,
}

pub struct Flow<B, State> {
    pub inner: Inner<B>,
    pub _ph: PhantomData<State>,
}
pub struct SendRequest(());
pub struct RecvResp(());

impl<B> Flow<B, SendRequest> {
    pub open spec fn wf(&self) -> bool {
        (self.inner.call is WithoutBody || self.inner.call is WithBody) && (self.inner.call is WithoutBody <==> !self.inner.should_send_body)
    }
    pub fn can_proceed(&self) -> bool 
        requires self.wf()
    {
        match &self.inner.call {
            CallHolder::WithoutBody(v) => v.state.ended,
            CallHolder::WithBody(v) => v.state.skip,
            _ => unreachable!(),
        }
    }
    pub fn proceed(self) -> (r: Result<Option<Flow<B, RecvResp>>, Error>)
        requires self.wf()
    {
        let mut this = self;
        if !this.can_proceed() {
            return Ok(None);
        }
        if this.inner.should_send_body {
            Ok(None)
        } else {
            let call = match this.inner.call {
                CallHolder::WithoutBody(v) => v,
                _ => unreachable!(),
            };
            let call_recv = call.into_receive().unwrap();
            let call = CallHolder::RecvResponse(call_recv);
            this.inner.call = call;
            let flow = Flow { inner: this.inner, _ph: PhantomData };
            Ok(Some(flow))
        }
    }
}

} // verus!
fn main() {}
