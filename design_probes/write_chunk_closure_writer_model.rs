use vstd::prelude::*;
use std::io;
verus! {

#[verifier::external_type_specification]
#[verifier::external_body]
pub struct ExIoError(std::io::Error);

#[verifier::external_body]
pub struct Writer<'a> { inner: std::io::Cursor<&'a mut [u8]> }

pub open spec fn hex_digits(n: nat) -> Seq<u8>
    decreases n
{
    if n < 16 { seq![hex_digit(n)] } else { hex_digits(n / 16).push(hex_digit(n % 16)) }
}
pub open spec fn hex_digit(d: nat) -> u8 { if d < 10 { (48 + d) as u8 } else { (87 + d) as u8 } }

pub open spec fn min3(a:int,b:int,c:int)->int { let m = if a<b {a} else {b}; if m<c {m} else {c} }
pub open spec fn crlf() -> Seq<u8> { seq![13u8, 10u8] }

impl<'a> Writer<'a> {
    pub uninterp spec fn cap(&self) -> nat;
    pub uninterp spec fn out(&self) -> Seq<u8>;   // bytes written so far [0..len)

    #[verifier::external_body]
    pub fn len(&self) -> (r: usize)
        ensures r == self.out().len(), r <= self.cap()
    { unimplemented!() }

    #[verifier::external_body]
    pub fn available(&self) -> (r: usize)
        ensures r == self.cap() - self.out().len()
    { unimplemented!() }

    #[verifier::external_body]
    pub fn rollback(&mut self, pos: usize)
        requires pos <= old(self).out().len()
        ensures final(self).cap() == old(self).cap(), final(self).out() == old(self).out().subrange(0, pos as int)
    { unimplemented!() }

    pub open spec fn appended(&self, post: &Self, bytes: Seq<u8>, r: io::Result<()>) -> bool {
        &&& post.cap() == self.cap()
        &&& (r is Ok <==> self.out().len() + bytes.len() <= self.cap())
        &&& (r is Ok ==> post.out() == self.out() + bytes)
        &&& (r is Err ==> self.out().is_prefix_of(post.out()))
    }

    #[verifier::external_body]
    pub fn write_all(&mut self, buf: &[u8]) -> (r: io::Result<()>)
        ensures old(self).appended(final(self), buf@, r)
    { unimplemented!() }

    #[verifier::external_body]
    pub fn write_hex_crlf(&mut self, n: usize) -> (r: io::Result<()>)
        ensures old(self).appended(final(self), hex_digits(n as nat) + crlf(), r)
    { unimplemented!() }

    #[verifier::external_body]
    pub fn write_crlf(&mut self) -> (r: io::Result<()>)
        ensures old(self).appended(final(self), crlf(), r)
    { unimplemented!() }

    pub(crate) fn try_write(&mut self, block: impl Fn(&mut Self) -> io::Result<()>) -> (success: bool)
        requires forall|w: &mut Self| #[trigger] block.requires((w,)),
            forall|w: &mut Self, r: io::Result<()>| #[trigger] block.ensures((w,), r) ==> final(w).cap() == w.cap() && w.out().is_prefix_of(final(w).out()),
        ensures
            final(self).cap() == old(self).cap(),
            !success ==> final(self).out() == old(self).out(),
            exists|w2: &mut Self, r: io::Result<()>| *w2 == *old(self) && (r is Ok <==> success) && (success ==> *final(w2) == *final(self)) && #[trigger] block.ensures((w2,), r),
    {
        let pos = self.len();
        let success = (block)(self).is_ok();
        if !success {
            self.rollback(pos);
        }
        success
    }
}

fn write_chunk(input: &[u8], input_used: &mut usize, w: &mut Writer, max_chunk: usize) -> (again: bool)
    requires *old(input_used) + input.len() <= usize::MAX
    ensures
        final(w).cap() == old(w).cap(),
        ({
            let avail = old(w).cap() - old(w).out().len();
            let a5 = if avail >= 5 { avail - 5 } else { 0 };
            let tw = min3(input.len() as int, max_chunk as int, a5);
            let chunk = hex_digits(tw as nat) + crlf() + input@.subrange(0, tw) + crlf();
            let success = chunk.len() <= avail;
            &&& success ==> final(w).out() =~= old(w).out() + chunk && *final(input_used) == *old(input_used) + tw
            &&& !success ==> final(w).out() == old(w).out() && *final(input_used) == *old(input_used)
            &&& again == (success && input.len() > tw)
        }),
{
    // 5 is the smallest possible overhead
    let available = w.available().saturating_sub(5);

    let to_write = input.len().min(max_chunk).min(available);

    let success = w.try_write(|w: &mut Writer| -> (r: io::Result<()>)
      ensures old(w).cap() == final(w).cap(), old(w).out().is_prefix_of(final(w).out()),
        r is Ok <==> old(w).out().len() + hex_digits(to_write as nat).len() + 4 + to_write <= old(w).cap(),
        r is Ok ==> final(w).out() =~= old(w).out() + hex_digits(to_write as nat) + crlf() + input@.subrange(0, to_write as int) + crlf()
    {
        // chunk length
        w.write_hex_crlf(to_write)?;

        // chunk
        w.write_all(&input[..to_write])?;

        // chunk end
        w.write_crlf()
    });

    if success {
        *input_used += to_write;
    }

    // write another chunk?
    success && input.len() > to_write
}

} // verus!
fn main() {}
