//! F10 (C12, C05, C20): hostile server bytes must never panic the client.  A header field name of
//! 64 KiB or more is accepted by httparse but rejected by http's builder; the parsers unwrapped that error.
use ureq_proto::client::flow::{Flow, SendRequestResult};
use ureq_proto::http::Request;
use ureq_proto::parser::{try_parse_partial_response, try_parse_request, try_parse_response};

fn head_with_long_name() -> Vec<u8> {
    let mut v = b"HTTP/1.1 200 OK\r\n".to_vec();
    v.extend(std::iter::repeat(b'a').take(70_000));
    v.extend_from_slice(b": x\r\n\r\n");
    v
}

#[test]
fn f10_parsers_do_not_panic() {
    let input = head_with_long_name();
    let r = std::panic::catch_unwind(|| try_parse_response::<4>(&input).is_err());
    assert_eq!(r.ok(), Some(true), "try_parse_response panicked or accepted");
    let r = std::panic::catch_unwind(|| try_parse_partial_response::<4>(&input).is_err());
    assert_eq!(r.ok(), Some(true), "try_parse_partial_response panicked or accepted");
    let mut req = b"GET / HTTP/1.1\r\n".to_vec();
    req.extend(std::iter::repeat(b'a').take(70_000));
    req.extend_from_slice(b": x\r\n\r\n");
    let r = std::panic::catch_unwind(|| try_parse_request::<4>(&req).is_err());
    assert_eq!(r.ok(), Some(true), "try_parse_request panicked or accepted");
}

#[test]
fn f10_flow_does_not_panic() {
    let req = Request::get("http://a.test/").body(()).unwrap();
    let mut flow = Flow::new(req).unwrap().proceed();
    let mut out = vec![0u8; 256];
    flow.write(&mut out).unwrap();
    let mut flow = match flow.proceed() {
        Ok(Some(SendRequestResult::RecvResponse(f))) => f,
        _ => panic!(),
    };
    let input = head_with_long_name();
    let r = std::panic::catch_unwind(std::panic::AssertUnwindSafe(|| flow.try_response(&input).is_err()));
    assert_eq!(r.ok(), Some(true), "Flow::try_response panicked or accepted");
}
