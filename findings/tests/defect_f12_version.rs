//! F12 (C17): a request whose version is not HTTP/1.0 or 1.1 must be refused before a byte is emitted.
use ureq_proto::client::flow::Flow;
use ureq_proto::http::{Request, Version};
use ureq_proto::Error;

#[test]
fn f12_unsupported_versions_rejected() {
    for v in [Version::HTTP_09, Version::HTTP_2, Version::HTTP_3] {
        let req = Request::get("http://a.test/").version(v).body(()).unwrap();
        let mut flow = Flow::new(req).unwrap().proceed();
        let mut out = vec![0u8; 256];
        let r = flow.write(&mut out);
        let wrote = match &r { Ok(n) => String::from_utf8_lossy(&out[..*n]).to_string(), Err(_) => String::new() };
        assert_eq!(r, Err(Error::UnsupportedVersion), "{:?}: wrote {:?}", v, wrote);
        assert!(!flow.can_proceed());
    }
}
