//! F5 (C05, C20): every strict prefix of a well-formed response head means "need more data":
//! never an error.  Prefixes shorter than the version token returned Err(MissingResponseVersion).
use ureq_proto::client::flow::{Flow, SendRequestResult};
use ureq_proto::http::Request;
use ureq_proto::parser::try_parse_partial_response;

#[test]
fn f5_every_prefix_is_need_more_data() {
    let head = b"HTTP/1.1 200 OK\r\nContent-Length: 3\r\n\r\n";
    for k in 0..head.len() {
        let req = Request::get("http://a.test/").body(()).unwrap();
        let mut flow = Flow::new(req).unwrap().proceed();
        let mut out = vec![0u8; 256];
        flow.write(&mut out).unwrap();
        let mut flow = match flow.proceed() {
            Ok(Some(SendRequestResult::RecvResponse(f))) => f,
            _ => panic!(),
        };
        let r = flow.try_response(&head[..k]);
        assert!(matches!(r, Ok((0, None))), "prefix of {} bytes: {:?}", k, r);
        let r = try_parse_partial_response::<8>(&head[..k]);
        assert!(r.is_ok(), "partial parser on prefix of {} bytes: {:?}", k, r);
    }
}
