//! Demonstrations of the genuine defects F1-F4, F13 (DESIGN.md section 7) through the
//! public API.  Copy to <scratch copy of /repo>/tests/ and run `cargo test --offline
//! --test defects_body_writer`.  Every test fails on the pinned tree 2ff804a and
//! passes once the corresponding `fix:` commit is applied.
use ureq_proto::client::flow::state::SendBody;
use ureq_proto::client::flow::{Flow, SendRequestResult};
use ureq_proto::http::Request;

fn chunked_send_body() -> Flow<(), SendBody> {
    let req = Request::post("http://a.test/x").body(()).unwrap();
    let mut flow = Flow::new(req).unwrap().proceed();
    let mut out = vec![0u8; 1024];
    flow.write(&mut out).unwrap();
    match flow.proceed() {
        Ok(Some(SendRequestResult::SendBody(v))) => v,
        _ => panic!("not SendBody"),
    }
}

/// F1 (C03): a non-empty write into exactly 5 bytes of space must not emit the terminator.
#[test]
fn f1_no_premature_terminator_at_5_bytes() {
    let mut flow = chunked_send_body();
    let mut out = [0u8; 5];
    let (i, o) = flow.write(b"xyz", &mut out).unwrap();
    assert_eq!((i, &out[..o]), (0, &b""[..]), "emitted {:?}", &out[..o]);
}

/// F1 (C03), inside one call: after a full chunk exactly 5 bytes remain.
#[test]
fn f1_no_premature_terminator_after_full_chunk() {
    let mut flow = chunked_send_body();
    let input = vec![b'a'; 10300];
    let mut out = vec![0u8; 10248 + 5];
    let (i, o) = flow.write(&input, &mut out).unwrap();
    assert_eq!(i, 10240);
    assert_eq!(o, 10248, "tail emitted: {:?}", &out[10248..o]);
}

/// F2 (C03): the body is finished iff the terminator was completely emitted.
#[test]
fn f2_finished_iff_terminator_emitted() {
    let mut flow = chunked_send_body();
    let mut out = [0u8; 4];
    let (_, o) = flow.write(&[], &mut out).unwrap();
    assert_eq!(o, 0);
    assert!(!flow.can_proceed(), "reported finished without a terminator on the wire");
    let mut out = [0u8; 5];
    let (_, o) = flow.write(&[], &mut out).unwrap();
    assert_eq!(&out[..o], b"0\r\n\r\n");
    assert!(flow.can_proceed());
}

/// F3 (C03): the terminator is emitted exactly once.
#[test]
fn f3_terminator_once() {
    let mut flow = chunked_send_body();
    let mut out = [0u8; 32];
    let (_, o1) = flow.write(&[], &mut out).unwrap();
    assert_eq!(o1, 5);
    let (_, o2) = flow.write(&[], &mut out).unwrap();
    assert_eq!(o2, 0, "second terminator emitted");
}

/// F4 (C19): a 21-byte buffer has room for a chunk, so a 17-byte input must make progress.
#[test]
fn f4_progress_with_room() {
    let mut flow = chunked_send_body();
    let mut out = [0u8; 21];
    let (i, _o) = flow.write(&[b'x'; 17], &mut out).unwrap();
    assert!(i >= 1, "no progress: consumed {}", i);
}

/// F4 (C19): a caller looping with a fixed 64-byte buffer terminates on a 1000-byte body.
#[test]
fn f4_loop_terminates() {
    let mut flow = chunked_send_body();
    let body = vec![b'b'; 1000];
    let mut sent = 0;
    let mut rounds = 0;
    while sent < body.len() {
        let mut out = [0u8; 64];
        let (i, _) = flow.write(&body[sent..], &mut out).unwrap();
        sent += i;
        rounds += 1;
        assert!(rounds < 2000, "send loop spins: {} bytes sent after {} rounds", sent, rounds);
    }
}

/// F13 (C02): once the head is complete, further SendRequest::write calls emit nothing.
#[test]
fn f13_write_after_head_complete_emits_nothing() {
    let req = Request::post("http://a.test/x").body(()).unwrap();
    let mut flow = Flow::new(req).unwrap().proceed();
    let mut out = vec![0u8; 1024];
    let n = flow.write(&mut out).unwrap();
    assert!(n > 0 && flow.can_proceed());
    let n2 = flow.write(&mut out).unwrap();
    assert_eq!(n2, 0, "emitted {:?} after the head was complete", &out[..n2]);
}
