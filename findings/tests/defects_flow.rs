//! Demonstrations of flow-level defects (DESIGN.md section 7): F7, F8, F9, F11, F14, relative-base panic.
use ureq_proto::client::flow::state::{Prepare, RecvResponse, Redirect};
use ureq_proto::client::flow::{
    Await100Result, Flow, RecvBodyResult, RecvResponseResult, RedirectAuthHeaders, SendRequestResult,
};
use ureq_proto::http::{Request, Version};

fn head_of(flow: Flow<(), Prepare>) -> String {
    let mut flow = flow.proceed();
    let mut out = vec![0u8; 4096];
    let n = flow.write(&mut out).unwrap();
    String::from_utf8_lossy(&out[..n]).to_string()
}

fn to_redirect(req: Request<()>, response: &[u8]) -> Flow<(), Redirect> {
    let mut flow = Flow::new(req).unwrap().proceed();
    let mut out = vec![0u8; 4096];
    flow.write(&mut out).unwrap();
    let mut flow = match flow.proceed() {
        Ok(Some(SendRequestResult::RecvResponse(f))) => f,
        _ => panic!("not RecvResponse"),
    };
    let (_, r) = flow.try_response(response).unwrap();
    assert!(r.is_some());
    match flow.proceed() {
        Some(RecvResponseResult::Redirect(f)) => f,
        _ => panic!("not Redirect"),
    }
}

/// F7 (C09, C11): the flow obtained after the server refused an Expect: 100-continue request is usable.
#[test]
fn f7_await100_refusal_then_receive_response() {
    let req = Request::put("http://a.test/x").header("expect", "100-continue").body(()).unwrap();
    let mut flow = Flow::new(req).unwrap().proceed();
    let mut out = vec![0u8; 1024];
    flow.write(&mut out).unwrap();
    let mut flow = match flow.proceed() {
        Ok(Some(SendRequestResult::Await100(f))) => f,
        _ => panic!("not Await100"),
    };
    let input = b"HTTP/1.1 403 Forbidden\r\n\r\n";
    assert_eq!(flow.try_read_100(input).unwrap(), 0);
    let mut flow: Flow<(), RecvResponse> = match flow.proceed() {
        Ok(Await100Result::RecvResponse(f)) => f,
        _ => panic!("not RecvResponse"),
    };
    let (n, r) = flow.try_response(input).unwrap();
    assert_eq!(n, input.len());
    assert_eq!(r.unwrap().status(), 403);
    let flow = match flow.proceed() {
        Some(RecvResponseResult::RecvBody(f)) => f,
        _ => panic!("close delimited body expected"),
    };
    assert!(flow.can_proceed());
    match flow.proceed() {
        Some(RecvBodyResult::Cleanup(f)) => assert!(f.must_close_connection()),
        _ => panic!(),
    }
}

/// F8 (C09): send_body_despite_method without a framing header yields a usable SendBody state.
#[test]
fn f8_send_body_despite_method_without_framing_header() {
    let req = Request::get("http://a.test/x").body(()).unwrap();
    let mut flow = Flow::new(req).unwrap();
    flow.send_body_despite_method();
    let mut flow = flow.proceed();
    let mut out = vec![0u8; 1024];
    let n = flow.write(&mut out).unwrap();
    let head = String::from_utf8_lossy(&out[..n]).to_lowercase();
    assert!(head.contains("transfer-encoding: chunked") || head.contains("content-length:"), "no framing header: {}", head);
    let mut flow = match flow.proceed() {
        Ok(Some(SendRequestResult::SendBody(f))) => f,
        _ => panic!("not SendBody"),
    };
    let (i, _) = flow.write(b"hi", &mut out).unwrap();
    assert_eq!(i, 2);
    flow.write(&[], &mut out).unwrap();
    assert!(flow.can_proceed());
}

/// F9 (C12, C10): five simultaneous close conditions must not overflow the reason list.
#[test]
fn f9_five_close_reasons() {
    let req = Request::post("http://a.test/x")
        .version(Version::HTTP_10)
        .header("connection", "close")
        .header("expect", "100-continue")
        .body(())
        .unwrap();
    let mut flow = Flow::new(req).unwrap().proceed();
    let mut out = vec![0u8; 1024];
    flow.write(&mut out).unwrap();
    let mut flow = match flow.proceed() {
        Ok(Some(SendRequestResult::Await100(f))) => f,
        _ => panic!("not Await100"),
    };
    let input = b"HTTP/1.0 403 Forbidden\r\nConnection: close\r\n\r\n";
    assert_eq!(flow.try_read_100(input).unwrap(), 0);
    let mut flow = match flow.proceed() {
        Ok(Await100Result::RecvResponse(f)) => f,
        _ => panic!("not RecvResponse"),
    };
    let (_, r) = flow.try_response(input).unwrap();
    assert!(r.is_some());
    let flow = match flow.proceed() {
        Some(RecvResponseResult::RecvBody(f)) => f,
        _ => panic!("close delimited body expected"),
    };
    match flow.proceed() {
        Some(RecvBodyResult::Cleanup(f)) => assert!(f.must_close_connection()),
        _ => panic!(),
    }
}

/// F11 (C16): headers added to a redirected flow reach the wire whatever their name.
#[test]
fn f11_caller_added_cookie_after_redirect() {
    let req = Request::get("http://a.test/x").header("cookie", "old=1").body(()).unwrap();
    let mut redirect = to_redirect(req, b"HTTP/1.1 302 Found\r\nLocation: http://b.test/y\r\n\r\n");
    let mut next = redirect.as_new_flow(RedirectAuthHeaders::Never).unwrap().unwrap();
    next.header("cookie", "jar=1").unwrap();
    next.header("x-a", "1").unwrap();
    let head = head_of(next);
    assert!(head.contains("x-a: 1"), "{}", head);
    assert!(head.contains("cookie: jar=1"), "caller-added cookie missing: {}", head);
    assert!(!head.contains("old=1"), "inherited cookie leaked: {}", head);
}

/// F14 (C14): after a redirect the Host header names the target host.
#[test]
fn f14_host_header_names_redirect_target() {
    let req = Request::get("http://a.test/x").header("host", "a.test").body(()).unwrap();
    let mut redirect = to_redirect(req, b"HTTP/1.1 302 Found\r\nLocation: http://b.test/y\r\n\r\n");
    let next = redirect.as_new_flow(RedirectAuthHeaders::Never).unwrap().unwrap();
    let head = head_of(next);
    assert!(head.starts_with("GET /y HTTP/1.1\r\n"), "{}", head);
    assert!(head.contains("host: b.test"), "Host does not name the target: {}", head);
    assert!(!head.contains("host: a.test"), "stale Host: {}", head);
}

/// candidate: a request with a relative URI that is redirected must give an error, not a panic (C14/C12).
#[test]
fn cand_relative_base_uri_redirect_no_panic() {
    let req = Request::get("/x").header("host", "a.test").body(()).unwrap();
    let mut redirect = to_redirect(req, b"HTTP/1.1 302 Found\r\nLocation: /y\r\n\r\n");
    let r = std::panic::catch_unwind(std::panic::AssertUnwindSafe(|| redirect.as_new_flow(RedirectAuthHeaders::Never).is_ok()));
    assert!(r.is_ok(), "as_new_flow panicked on a relative request URI");
}

/// candidate: calling as_new_flow twice must not panic (C09).
#[test]
fn cand_as_new_flow_twice_no_panic() {
    let req = Request::get("http://a.test/x").body(()).unwrap();
    let mut redirect = to_redirect(req, b"HTTP/1.1 302 Found\r\nLocation: /y\r\n\r\n");
    let first = redirect.as_new_flow(RedirectAuthHeaders::Never).unwrap();
    assert!(first.is_some());
    let r = std::panic::catch_unwind(std::panic::AssertUnwindSafe(|| redirect.as_new_flow(RedirectAuthHeaders::Never).is_ok()));
    assert!(r.is_ok(), "second as_new_flow panicked");
}
