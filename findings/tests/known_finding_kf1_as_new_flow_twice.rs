//! KNOWN FINDING KF1 (C09), not repaired: the second call of as_new_flow() on a redirect flow that itself
//! came from a redirect panics (amended.rs take_request: the original request was already taken).
//! This test FAILS on the current tree by design; it documents the finding listed in known_findings.txt.
use ureq_proto::client::flow::state::{Prepare, RecvResponse, Redirect};
use ureq_proto::client::flow::{
    Await100Result, Flow, RecvBodyResult, RecvResponseResult, RedirectAuthHeaders, SendRequestResult,
};
use ureq_proto::http::{Request, Version};

fn head_of(flow: Flow<(), Prepare>) -> String {
    let mut flow = flow.proceed();
    let mut out = vec![0u8; 4096];
    let n = flow.write(&mut out).unwrap();
    String::from_utf8_lossy(&out[..n]).to_string()
}

fn to_redirect(req: Request<()>, response: &[u8]) -> Flow<(), Redirect> {
    let mut flow = Flow::new(req).unwrap().proceed();
    let mut out = vec![0u8; 4096];
    flow.write(&mut out).unwrap();
    let mut flow = match flow.proceed() {
        Ok(Some(SendRequestResult::RecvResponse(f))) => f,
        _ => panic!("not RecvResponse"),
    };
    let (_, r) = flow.try_response(response).unwrap();
    assert!(r.is_some());
    match flow.proceed() {
        Some(RecvResponseResult::Redirect(f)) => f,
        _ => panic!("not Redirect"),
    }
}


/// KF1
#[test]
fn cand_as_new_flow_twice_on_second_hop() {
    let req = Request::get("http://a.test/x").body(()).unwrap();
    let mut redirect = to_redirect(req, b"HTTP/1.1 302 Found\r\nLocation: /y\r\n\r\n");
    let next = redirect.as_new_flow(RedirectAuthHeaders::Never).unwrap().unwrap();
    let mut flow = next.proceed();
    let mut out = vec![0u8; 4096];
    flow.write(&mut out).unwrap();
    let mut flow = match flow.proceed() {
        Ok(Some(SendRequestResult::RecvResponse(f))) => f,
        _ => panic!("not RecvResponse"),
    };
    flow.try_response(b"HTTP/1.1 302 Found\r\nLocation: /z\r\n\r\n").unwrap();
    let mut redirect2 = match flow.proceed() {
        Some(RecvResponseResult::Redirect(f)) => f,
        _ => panic!("not Redirect"),
    };
    assert!(redirect2.as_new_flow(RedirectAuthHeaders::Never).unwrap().is_some());
    let r = std::panic::catch_unwind(std::panic::AssertUnwindSafe(|| redirect2.as_new_flow(RedirectAuthHeaders::Never).is_ok()));
    assert!(r.is_ok(), "second as_new_flow on a second-hop flow panicked");
}
