//! KNOWN FINDING KF2 (= F6, C05), not repaired: a 3xx response head cut anywhere after a complete Location
//! line is returned as a complete response (later fields are lost, the whole input is consumed and a synthetic
//! "connection: close" is added).  Deliberate upstream work-around for servers that never send the final CRLF
//! (call.rs try_response, "I don't like this code" comment); removing it removes behaviour, so it is recorded.
//! This test FAILS on the current tree by design.
use ureq_proto::client::flow::{Flow, SendRequestResult};
use ureq_proto::http::Request;

#[test]
fn kf2_redirect_head_cut_after_location_is_need_more_data() {
    let head = b"HTTP/1.1 302 Found\r\nLocation: /x\r\nSet-Cookie: a=b\r\nContent-Length: 0\r\n\r\n";
    let cut = b"HTTP/1.1 302 Found\r\nLocation: /x\r\nSet-Cookie: a=b\r\nContent-Le";
    assert!(head.starts_with(cut));
    let req = Request::get("http://a.test/").body(()).unwrap();
    let mut flow = Flow::new(req).unwrap().proceed();
    let mut out = vec![0u8; 256];
    flow.write(&mut out).unwrap();
    let mut flow = match flow.proceed() {
        Ok(Some(SendRequestResult::RecvResponse(f))) => f,
        _ => panic!(),
    };
    let (n, r) = flow.try_response(cut).unwrap();
    assert!(n == 0 && r.is_none(), "prefix of {} bytes returned as a response consuming {} bytes: {:?}", cut.len(), n, r);
}
