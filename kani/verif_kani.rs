//! Kani harnesses (BOUNDED stand-ins, never counted as proved) for hoot functions that stay outside Verus.
//! Compiled into a scratch copy of /repo as `#[cfg(kani)] mod verif_kani;` by tool/kani_check.py, so the
//! harnesses call the crate's real, crate-private functions.

/// `util::compare_lowercase_ascii(a, "chunked")` - the only way the crate ever calls it (body.rs, amended.rs) -
/// against its assumed contract `spec_compare_lowercase_ascii`: true iff `a` is ASCII, has the same length and
/// equals the second argument after ASCII lower-casing.  Bound: every valid UTF-8 string of 0..=8 bytes (the loop
/// is entered only for 7-byte strings; every other length returns at the length test).  Unwinding assertions on.
#[kani::proof]
#[kani::unwind(10)]
fn compare_lowercase_ascii_against_chunked() {
    let bytes: [u8; 8] = kani::any();
    let n: usize = kani::any();
    kani::assume(n <= 8);
    if let Ok(s) = std::str::from_utf8(&bytes[..n]) {
        let r = crate::util::compare_lowercase_ascii(s, "chunked");
        let want = b"chunked";
        let mut spec = n == 7;
        let mut i = 0;
        while i < 7 {
            if i < n && !(bytes[i] < 128 && bytes[i].to_ascii_lowercase() == want[i]) {
                spec = false;
            }
            i += 1;
        }
        assert!(r == spec);
    }
}

/// the same against a second constant, to see that nothing is special about "chunked"
#[kani::proof]
#[kani::unwind(6)]
fn compare_lowercase_ascii_against_gzip() {
    let bytes: [u8; 4] = kani::any();
    if let Ok(s) = std::str::from_utf8(&bytes) {
        let r = crate::util::compare_lowercase_ascii(s, "gzip");
        let want = b"gzip";
        let mut spec = true;
        let mut i = 0;
        while i < 4 {
            if !(bytes[i] < 128 && bytes[i].to_ascii_lowercase() == want[i]) {
                spec = false;
            }
            i += 1;
        }
        assert!(r == spec);
    }
}
