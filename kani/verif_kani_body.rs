//! Kani harnesses compiled as a CHILD module of src/body.rs (`#[cfg(kani)] mod verif_kani_body;` appended to a scratch
//! copy by tool/kani_check.py), so that they can call the module's private functions.

/// `body::hex_len` and `body::max_chunk_data` over the FULL usize domain (loops are bounded by the operand width: 16 hex
/// digits, unwind 18 with unwinding assertions, so this is complete, not sampled): the result is the largest data length
/// whose chunk `hex(len) CRLF data CRLF` fits `available` (C19), or 0 when not even one byte fits.
#[kani::proof]
#[kani::unwind(18)]
fn max_chunk_data_is_the_largest_fit() {
    let available: usize = kani::any();
    let r = super::max_chunk_data(available);
    // independent oracle for the number of hex digits (bit length / 4, rounded up)
    let digits = |n: usize| -> usize { if n == 0 { 1 } else { (usize::BITS as usize - n.leading_zeros() as usize + 3) / 4 } };
    let probe: usize = kani::any();
    assert!(super::hex_len(probe) == digits(probe));
    let chunk = |n: usize| -> Option<usize> { n.checked_add(digits(n))?.checked_add(4) };
    if r > 0 {
        assert!(chunk(r).map(|c| c <= available).unwrap_or(false));
    }
    if r < usize::MAX {
        // one more byte does not fit (for r == 0: a 1-byte chunk needs 6 bytes)
        assert!(chunk(r + 1).map(|c| c > available).unwrap_or(true));
    }
}

/// C18 on the real `body::calculate_max_input`, independent of any closed form: for every output length n < 2^32 the
/// advertised maximum is at most n and does not shrink when one more byte of output is offered (BOUNDED: 32-bit domain;
/// the 64-bit division makes the full domain take 23 minutes of SAT time)
#[kani::proof]
fn calculate_max_input_le_n_and_monotone() {
    let n: usize = kani::any();
    kani::assume(n < (1usize << 32));
    let r = super::calculate_max_input(n);
    assert!(r <= n);
    assert!(r <= super::calculate_max_input(n + 1));
}

/// C18 "a write of the advertised maximum is consumed whole", on the real `calculate_max_input` and `max_chunk_data`: the
/// greedy chunk writer (largest chunk that fits, at most 10240 bytes of data) consumes all of it.  BOUNDED: n < 32768
/// (at most four chunks, unwind 6; longer buffers are covered by the twin's sizes up to 2561 chunks)
#[kani::proof]
#[kani::unwind(20)]
fn calculate_max_input_is_consumed_by_the_greedy_writer() {
    let n: usize = kani::any();
    kani::assume(n < 32768);
    let advertised = super::calculate_max_input(n);
    let mut left = advertised;
    let mut room = n;
    let mut rounds = 0;
    while left > 0 && rounds < 5 {
        let fit = super::max_chunk_data(room);
        let take = if left < 10240 { left } else { 10240 };
        let take = if take < fit { take } else { fit };
        if take == 0 {
            break;
        }
        // independent digit count (bit length / 4, rounded up)
        let digits = (usize::BITS as usize - take.leading_zeros() as usize + 3) / 4;
        room -= take + digits + 4;
        left -= take;
        rounds += 1;
    }
    assert!(left == 0);
}
