//! Kani harnesses compiled as a CHILD module of src/body.rs (`#[cfg(kani)] mod verif_kani_body;` appended to a scratch
//! copy by tool/kani_check.py), so that they can call the module's private functions.

/// `body::hex_len` and `body::max_chunk_data` over the FULL usize domain (loops are bounded by the operand width: 16 hex
/// digits, unwind 18 with unwinding assertions, so this is complete, not sampled): the result is the largest data length
/// whose chunk `hex(len) CRLF data CRLF` fits `available` (C19), or 0 when not even one byte fits.
#[kani::proof]
#[kani::unwind(18)]
fn max_chunk_data_is_the_largest_fit() {
    let available: usize = kani::any();
    let r = super::max_chunk_data(available);
    // independent oracle for the number of hex digits (bit length / 4, rounded up)
    let digits = |n: usize| -> usize { if n == 0 { 1 } else { (usize::BITS as usize - n.leading_zeros() as usize + 3) / 4 } };
    let probe: usize = kani::any();
    assert!(super::hex_len(probe) == digits(probe));
    let chunk = |n: usize| -> Option<usize> { n.checked_add(digits(n))?.checked_add(4) };
    if r > 0 {
        assert!(chunk(r).map(|c| c <= available).unwrap_or(false));
    }
    if r < usize::MAX {
        // one more byte does not fit (for r == 0: a 1-byte chunk needs 6 bytes)
        assert!(chunk(r + 1).map(|c| c > available).unwrap_or(true));
    }
}

/// `body::calculate_max_input` against its closed form (C18) for every output length below 2^32 (BOUNDED: the full
/// 64-bit domain also verifies but takes 23 minutes of SAT time for the 64-bit division; 4 GiB buffers cover every
/// multiple-of-chunk boundary effect, which repeat with period 10248)
#[kani::proof]
fn calculate_max_input_closed_form() {
    let n: usize = kani::any();
    kani::assume(n < (1usize << 32));
    let r = super::calculate_max_input(n);
    let full = n / 10248;
    let rest = n % 10248;
    let tail = if rest <= 8 { 0 } else { rest - 8 };
    assert!(r == full * 10240 + tail);
    assert!(r <= n);
}
