// ---------------------------------------------------------------------------
// TRUSTED PREAMBLE (written in /verif, not extracted): std models and axioms.
// Everything here is an assumption and is listed by the mechanical scan.
// ---------------------------------------------------------------------------

#[verifier::external_body]
pub proof fn axiom_slice_len<T>(b: &[T])
    ensures b@.len() <= usize::MAX
{}

pub assume_specification<T> [core::mem::replace::<T>] (dest: &mut T, src: T) -> (r: T)
    ensures r == *old(dest), *final(dest) == src;

// ---- core::str / number parsing, assumed contracts over uninterpreted bytes ----

#[verifier::external_type_specification]
#[verifier::external_body]
pub struct ExUtf8Error(core::str::Utf8Error);

#[verifier::external_type_specification]
#[verifier::external_body]
pub struct ExParseIntError(core::num::ParseIntError);

/// UTF-8 encoding of a character sequence (vstd views a str / String as Seq<char>)
pub uninterp spec fn utf8_bytes(c: Seq<char>) -> Seq<u8>;
/// bytes of a `str`
pub open spec fn str_bytes(s: &str) -> Seq<u8> { utf8_bytes(s@) }
pub uninterp spec fn is_utf8(b: Seq<u8>) -> bool;

pub open spec fn is_ws(c: u8) -> bool { c == 32 || (9 <= c <= 13) }

/// `str::trim` on ASCII input: strip ASCII white space (space, \t \n \x0b \x0c \r)
/// on both ends.  (On non-ASCII input `trim` also strips Unicode White_Space;
/// the callers only parse the result as a number, where any non-ASCII byte is
/// an error either way.)
pub open spec fn trim_start(b: Seq<u8>) -> Seq<u8>
    decreases b.len()
{
    if b.len() > 0 && is_ws(b[0]) { trim_start(b.subrange(1, b.len() as int)) } else { b }
}
pub open spec fn trim_end(b: Seq<u8>) -> Seq<u8>
    decreases b.len()
{
    if b.len() > 0 && is_ws(b[b.len() - 1]) { trim_end(b.subrange(0, b.len() - 1)) } else { b }
}
pub open spec fn trim_bytes(b: Seq<u8>) -> Seq<u8> { trim_end(trim_start(b)) }

pub open spec fn all_ascii(b: Seq<u8>) -> bool { forall|i: int| 0 <= i < b.len() ==> b[i] < 128 }

pub open spec fn hex_val(c: u8) -> Option<nat> {
    if 48 <= c <= 57 { Some((c - 48) as nat) }
    else if 97 <= c <= 102 { Some((c - 87) as nat) }
    else if 65 <= c <= 70 { Some((c - 55) as nat) }
    else { None }
}
/// value of a non-empty string of hex digits, None if any byte is not a hex digit
pub open spec fn hex_str_val(b: Seq<u8>) -> Option<nat>
    decreases b.len()
{
    if b.len() == 0 { None }
    else if b.len() == 1 { hex_val(b[0]) }
    else {
        match (hex_str_val(b.subrange(0, b.len() - 1)), hex_val(b[b.len() - 1])) {
            (Some(h), Some(d)) => Some(h * 16 + d),
            _ => None,
        }
    }
}
/// `usize::from_str_radix(s, 16)`: optional leading '+', then >= 1 hex digits, value fits.
pub open spec fn parse_hex(b: Seq<u8>) -> Option<usize> {
    let d = if b.len() > 0 && b[0] == 43u8 { b.subrange(1, b.len() as int) } else { b };
    match hex_str_val(d) {
        Some(v) => if v <= usize::MAX { Some(v as usize) } else { None },
        None => None,
    }
}

pub assume_specification<'a> [core::str::from_utf8] (v: &'a [u8]) -> (r: Result<&'a str, core::str::Utf8Error>)
    ensures r is Ok <==> is_utf8(v@), r is Ok ==> str_bytes(r->Ok_0) == v@;

/// `str::trim`: exact on ASCII input, uninterpreted (Unicode White_Space) otherwise.
pub uninterp spec fn trim_unicode(b: Seq<u8>) -> Seq<u8>;
pub open spec fn trim_spec(b: Seq<u8>) -> Seq<u8> { if all_ascii(b) { trim_bytes(b) } else { trim_unicode(b) } }
pub assume_specification<'a> [str::trim] (s: &'a str) -> (r: &'a str)
    ensures str_bytes(r) == trim_spec(str_bytes(s)), str_bytes(r).len() <= str_bytes(s).len();

pub assume_specification [usize::from_str_radix] (s: &str, radix: u32) -> (r: Result<usize, core::num::ParseIntError>)
    ensures radix == 16 ==> (match parse_hex(str_bytes(s)) { Some(n) => r == Ok::<usize, core::num::ParseIntError>(n), None => r is Err });

#[verifier::external_body]
pub proof fn axiom_ascii_is_utf8(b: Seq<u8>)
    ensures all_ascii(b) ==> is_utf8(b)
{}

// ---- hex rendering used by the `{:0x?}` format of usize ----
pub open spec fn hex_digit(d: nat) -> u8 { if d < 10 { (48 + d) as u8 } else { (87 + d) as u8 } }
pub open spec fn hex_digits(n: nat) -> Seq<u8>
    decreases n
{
    if n < 16 { seq![hex_digit(n)] } else { hex_digits(n / 16).push(hex_digit(n % 16)) }
}
pub open spec fn crlf() -> Seq<u8> { seq![13u8, 10u8] }
pub open spec fn min2(a: int, b: int) -> int { if a < b { a } else { b } }
pub open spec fn min3(a: int, b: int, c: int) -> int { min2(min2(a, b), c) }

// ---- str::parse::<F>() : generic assumed contract over an uninterpreted parser, made explicit for u64 ----
#[verifier::external_trait_specification]
pub trait ExFromStr: Sized {
    type ExternalTraitSpecificationFor: core::str::FromStr;
    type Err;
    fn from_str(s: &str) -> Result<Self, Self::Err>;
}
pub uninterp spec fn parse_any<F>(s: Seq<u8>) -> Option<F>;
pub assume_specification<F: core::str::FromStr> [str::parse::<F>] (s: &str) -> (r: Result<F, <F as core::str::FromStr>::Err>)
    ensures match parse_any::<F>(str_bytes(s)) { Some(n) => r is Ok && r->Ok_0 == n, None => r is Err };

pub open spec fn dec_val(c: u8) -> Option<nat> { if 48 <= c <= 57 { Some((c - 48) as nat) } else { None } }
pub open spec fn dec_str_val(b: Seq<u8>) -> Option<nat>
    decreases b.len()
{
    if b.len() == 0 { None }
    else if b.len() == 1 { dec_val(b[0]) }
    else {
        match (dec_str_val(b.subrange(0, b.len() - 1)), dec_val(b[b.len() - 1])) {
            (Some(h), Some(d)) => Some(h * 10 + d),
            _ => None,
        }
    }
}
/// `"..".parse::<u64>()`: optional leading '+', then >= 1 decimal digits whose value fits u64
pub open spec fn parse_dec_u64(b: Seq<u8>) -> Option<u64> {
    let d = if b.len() > 0 && b[0] == 43u8 { b.subrange(1, b.len() as int) } else { b };
    match dec_str_val(d) {
        Some(v) => if v <= u64::MAX { Some(v as u64) } else { None },
        None => None,
    }
}
use vstd::std_specs::cmp::OrdSpec;
// ---- core::cmp::min / max (no vstd spec): the documented behaviour over vstd's ordering spec (exact for the integer types) ----
pub assume_specification<T: Ord>[core::cmp::min::<T>](a: T, b: T) -> (r: T)
    ensures T::obeys_cmp_spec() ==> r == (if a.cmp_spec(&b) == core::cmp::Ordering::Greater { b } else { a });
pub assume_specification<T: Ord>[core::cmp::max::<T>](a: T, b: T) -> (r: T)
    ensures T::obeys_cmp_spec() ==> r == (if a.cmp_spec(&b) == core::cmp::Ordering::Greater { a } else { b });

/// decimal digits of n without padding ("0" for 0)
pub open spec fn dec_digits(n: nat) -> Seq<u8>
    decreases n
{
    if n < 10 { seq![(48 + n) as u8] } else { dec_digits(n / 10).push((48 + n % 10) as u8) }
}
/// N9: `size.to_string()` of a u64 (Display of integers is outside the verifier): ASSUMED to be the decimal digits
#[verifier::external_body]
pub fn u64_to_string(n: u64) -> (r: String)
    ensures utf8_bytes(r@) == dec_digits(n as nat)
{ n.to_string() }
#[verifier::external_body]
pub broadcast proof fn axiom_parse_u64(b: Seq<u8>)
    ensures #[trigger] parse_any::<u64>(b) == parse_dec_u64(b)
{}

/// link between vstd's view of a str (Seq<char>) and its UTF-8 bytes: empty iff empty
#[verifier::external_body]
pub broadcast proof fn axiom_str_bytes_empty(c: Seq<char>)
    ensures (#[trigger] utf8_bytes(c)).len() == 0 <==> c.len() == 0
{}

/// N9: `s.as_bytes()` in terms of this preamble's byte view of a str
#[verifier::external_body]
pub fn str_as_bytes<'a>(s: &'a str) -> (r: &'a [u8])
    ensures r@ == str_bytes(s)
{ s.as_bytes() }
