// TRUSTED PREAMBLE: model of std::io (module `io`)


    #[verifier::external_type_specification]
    #[verifier::external_body]
    pub struct ExIoError(std::io::Error);

    pub type Result<T> = std::io::Result<T>;

    /// Model of `std::io::Cursor<T>` (only what `util::Writer` uses).  The
    /// struct is a *model*: position and the wrapped value, nothing else.
    pub struct Cursor<T> {
        pub inner: T,
        pub pos: u64,
    }

    impl<T> Cursor<T> {
        pub fn new(inner: T) -> (r: Cursor<T>)
            ensures r.inner == inner, r.pos == 0
        { Cursor { inner, pos: 0 } }

        pub fn position(&self) -> (r: u64)
            ensures r == self.pos
        { self.pos }

        pub fn set_position(&mut self, p: u64)
            ensures final(self).pos == p, final(self).inner == old(self).inner
        { self.pos = p; }

        pub fn get_ref(&self) -> (r: &T)
            ensures *r == self.inner
        { &self.inner }
    }
