// ---------------------------------------------------------------------------
// TRUSTED PREAMBLE: stubs of the `http` crate (1.1) with assumed contracts.
// Only what ureq-proto calls.  Transparent models where equality matters
// (Method, Version, StatusCode), opaque types with spec views elsewhere.
// ---------------------------------------------------------------------------


    // ---------------------------------------------------------------- Method
    #[derive(Debug, PartialEq, Eq, Structural)]
    pub enum MInner { Options, Get, Post, Put, Delete, Head, Trace, Connect, Patch, Ext(u64) }
    /// model of http::Method: the nine standard methods plus extension methods (identified by an opaque id)
    #[derive(Debug, PartialEq, Eq, Structural)]
    pub struct Method(pub MInner);
    impl Method {
        pub const OPTIONS: Method = Method(MInner::Options);
        pub const GET: Method = Method(MInner::Get);
        pub const POST: Method = Method(MInner::Post);
        pub const PUT: Method = Method(MInner::Put);
        pub const DELETE: Method = Method(MInner::Delete);
        pub const HEAD: Method = Method(MInner::Head);
        pub const TRACE: Method = Method(MInner::Trace);
        pub const CONNECT: Method = Method(MInner::Connect);
        pub const PATCH: Method = Method(MInner::Patch);

        /// bytes of the method token as `Display` prints it
        pub uninterp spec fn bytes(&self) -> Seq<u8>;
        /// Method::from_bytes: Ok iff the bytes are a valid token (uninterpreted predicate)
        pub uninterp spec fn spec_from_bytes(b: Seq<u8>) -> Option<Method>;
        #[verifier::external_body]
        pub fn from_bytes(src: &[u8]) -> (r: Result<Method, InvalidMethod>)
            ensures match Self::spec_from_bytes(src@) { Some(m) => r == Ok::<Method, InvalidMethod>(m), None => r is Err }
        { unimplemented!() }
    }
    pub struct InvalidMethod(pub ());
    impl Clone for Method {
        #[verifier::external_body]
        fn clone(&self) -> (r: Self) ensures r == *self { unimplemented!() }
    }
    impl<'a> PartialEq<Method> for &'a Method {
        #[verifier::external_body]
        fn eq(&self, other: &Method) -> (r: bool) ensures r == (**self == *other) { unimplemented!() }
    }

    // ---------------------------------------------------------------- Version
    #[derive(Debug, PartialEq, Eq, Clone, Copy, Structural)]
    pub struct Version(pub u8);
    impl Version {
        pub const HTTP_09: Version = Version(0);
        pub const HTTP_10: Version = Version(1);
        pub const HTTP_11: Version = Version(2);
        pub const HTTP_2: Version = Version(3);
        pub const HTTP_3: Version = Version(4);
        /// bytes printed by `{:?}` ("HTTP/1.1" ...)
        pub uninterp spec fn bytes(&self) -> Seq<u8>;
    }

    // ---------------------------------------------------------------- StatusCode
    #[derive(Debug, PartialEq, Eq, Clone, Copy, Structural)]
    pub struct StatusCode(pub u16);
    pub struct InvalidStatusCode(pub ());
    impl StatusCode {
        pub const CONTINUE: StatusCode = StatusCode(100);
        pub const NOT_MODIFIED: StatusCode = StatusCode(304);
        pub const TEMPORARY_REDIRECT: StatusCode = StatusCode(307);
        pub const PERMANENT_REDIRECT: StatusCode = StatusCode(308);
        pub fn from_u16(src: u16) -> (r: Result<StatusCode, InvalidStatusCode>)
            ensures (100 <= src <= 999) ==> r == Ok::<StatusCode, InvalidStatusCode>(StatusCode(src)), !(100 <= src <= 999) ==> r is Err
        { if src >= 100 && src <= 999 { Ok(StatusCode(src)) } else { Err(InvalidStatusCode(())) } }
        pub fn as_u16(&self) -> (r: u16) ensures r == self.0 { self.0 }
        pub fn is_redirection(&self) -> (r: bool) ensures r == (300 <= self.0 <= 399) { self.0 >= 300 && self.0 <= 399 }
    }
    impl PartialEq<StatusCode> for u16 {
        #[verifier::external_body]
        fn eq(&self, other: &StatusCode) -> (r: bool) ensures r == (*self == other.0) { unimplemented!() }
    }

    // ---------------------------------------------------------------- header names / values
    /// http::HeaderName: a valid, lower-cased header name
    #[verifier::external_body]
    #[derive(Debug)]
    pub struct HeaderName { _p: () }
    /// http::HeaderValue: valid header value bytes (no CR / LF / NUL ...)
    #[verifier::external_body]
    #[derive(Debug)]
    pub struct HeaderValue { _p: () }
    impl HeaderName {
        /// the (lower-case) bytes of the name
        pub uninterp spec fn view(&self) -> Seq<u8>;
        #[verifier::external_body]
        pub fn from_static(src: &'static str) -> (r: HeaderName)
            ensures r.view() == crate::str_bytes(src)
        { unimplemented!() }
    }
    impl HeaderValue {
        pub uninterp spec fn view(&self) -> Seq<u8>;
        #[verifier::external_body]
        pub fn from_static(src: &'static str) -> (r: HeaderValue)
            ensures r.view() == crate::str_bytes(src)
        { unimplemented!() }
        #[verifier::external_body]
        pub fn as_bytes(&self) -> (r: &[u8])
            ensures r@ == self.view()
        { unimplemented!() }
        /// visible-ASCII test of HeaderValue::to_str
        pub open spec fn is_text(&self) -> bool {
            forall|i: int| 0 <= i < self.view().len() ==> (32 <= #[trigger] self.view()[i] < 127 || self.view()[i] == 9)
        }
        #[verifier::external_body]
        pub fn to_str(&self) -> (r: Result<&str, ToStrError>)
            ensures r is Ok <==> self.is_text(), r is Ok ==> crate::str_bytes(r->Ok_0) == self.view()
        { unimplemented!() }
    }
    pub struct ToStrError(pub ());
    impl Clone for HeaderValue {
        #[verifier::external_body]
        fn clone(&self) -> (r: Self) ensures r.view() == self.view() { unimplemented!() }
    }
    impl Clone for HeaderName {
        #[verifier::external_body]
        fn clone(&self) -> (r: Self) ensures r.view() == self.view() { unimplemented!() }
    }
