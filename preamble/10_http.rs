// ---------------------------------------------------------------------------
// TRUSTED PREAMBLE: stubs of the `http` crate (1.1) with assumed contracts.
// Only what ureq-proto calls.  Transparent models where equality matters
// (Method, Version, StatusCode), opaque types with spec views elsewhere.
// ---------------------------------------------------------------------------


    // ---------------------------------------------------------------- Method
    #[derive(Debug, PartialEq, Eq, Structural)]
    pub enum MInner { Options, Get, Post, Put, Delete, Head, Trace, Connect, Patch, Ext(u64) }
    /// model of http::Method: the nine standard methods plus extension methods (identified by an opaque id)
    #[derive(Debug, PartialEq, Eq, Structural)]
    pub struct Method(pub MInner);
    impl Method {
        pub const OPTIONS: Method = Method(MInner::Options);
        pub const GET: Method = Method(MInner::Get);
        pub const POST: Method = Method(MInner::Post);
        pub const PUT: Method = Method(MInner::Put);
        pub const DELETE: Method = Method(MInner::Delete);
        pub const HEAD: Method = Method(MInner::Head);
        pub const TRACE: Method = Method(MInner::Trace);
        pub const CONNECT: Method = Method(MInner::Connect);
        pub const PATCH: Method = Method(MInner::Patch);

        /// bytes of the method token as `Display` prints it
        pub uninterp spec fn bytes(&self) -> Seq<u8>;
        /// Method::from_bytes: Ok iff the bytes are a valid token (uninterpreted predicate)
        pub uninterp spec fn spec_from_bytes(b: Seq<u8>) -> Option<Method>;
        #[verifier::external_body]
        pub fn from_bytes(src: &[u8]) -> (r: Result<Method, InvalidMethod>)
            ensures match Self::spec_from_bytes(src@) { Some(m) => r == Ok::<Method, InvalidMethod>(m), None => r is Err }
        { unimplemented!() }
    }
    pub struct InvalidMethod(pub ());
    impl Clone for Method {
        #[verifier::external_body]
        fn clone(&self) -> (r: Self) ensures r == *self { unimplemented!() }
    }
    impl<'a> PartialEq<Method> for &'a Method {
        #[verifier::external_body]
        fn eq(&self, other: &Method) -> (r: bool) ensures r == (**self == *other) { unimplemented!() }
    }

    // ---------------------------------------------------------------- Version
    #[derive(Debug, PartialEq, Eq, Clone, Copy, Structural)]
    pub struct Version(pub u8);
    impl Version {
        pub const HTTP_09: Version = Version(0);
        pub const HTTP_10: Version = Version(1);
        pub const HTTP_11: Version = Version(2);
        pub const HTTP_2: Version = Version(3);
        pub const HTTP_3: Version = Version(4);
        /// bytes printed by `{:?}` ("HTTP/1.1" ...)
        pub uninterp spec fn bytes(&self) -> Seq<u8>;
    }

    // ---------------------------------------------------------------- StatusCode
    #[derive(Debug, PartialEq, Eq, Clone, Copy, Structural)]
    pub struct StatusCode(pub u16);
    pub struct InvalidStatusCode(pub ());
    impl StatusCode {
        pub const CONTINUE: StatusCode = StatusCode(100);
        pub const SWITCHING_PROTOCOLS: StatusCode = StatusCode(101);
        pub const OK: StatusCode = StatusCode(200);
        pub const NO_CONTENT: StatusCode = StatusCode(204);
        pub const MOVED_PERMANENTLY: StatusCode = StatusCode(301);
        pub const FOUND: StatusCode = StatusCode(302);
        pub const SEE_OTHER: StatusCode = StatusCode(303);
        pub const NOT_MODIFIED: StatusCode = StatusCode(304);
        pub const TEMPORARY_REDIRECT: StatusCode = StatusCode(307);
        pub const PERMANENT_REDIRECT: StatusCode = StatusCode(308);
        pub fn from_u16(src: u16) -> (r: Result<StatusCode, InvalidStatusCode>)
            ensures (100 <= src <= 999) ==> r == Ok::<StatusCode, InvalidStatusCode>(StatusCode(src)), !(100 <= src <= 999) ==> r is Err
        { if src >= 100 && src <= 999 { Ok(StatusCode(src)) } else { Err(InvalidStatusCode(())) } }
        pub fn as_u16(&self) -> (r: u16) ensures r == self.0 { self.0 }
        pub fn is_redirection(&self) -> (r: bool) ensures r == (300 <= self.0 <= 399) { self.0 >= 300 && self.0 <= 399 }
        pub fn is_informational(&self) -> (r: bool) ensures r == (100 <= self.0 <= 199) { self.0 >= 100 && self.0 <= 199 }
        pub fn is_success(&self) -> (r: bool) ensures r == (200 <= self.0 <= 299) { self.0 >= 200 && self.0 <= 299 }
        pub fn is_client_error(&self) -> (r: bool) ensures r == (400 <= self.0 <= 499) { self.0 >= 400 && self.0 <= 499 }
        pub fn is_server_error(&self) -> (r: bool) ensures r == (500 <= self.0 <= 599) { self.0 >= 500 && self.0 <= 599 }
    }
    /// http::StatusCode derives PartialOrd / Ord on its (non-zero) u16
    impl PartialOrd for StatusCode {
        #[verifier::external_body]
        fn partial_cmp(&self, other: &StatusCode) -> (r: Option<core::cmp::Ordering>) { unimplemented!() }
        #[verifier::external_body]
        fn lt(&self, other: &StatusCode) -> (r: bool) ensures r == (self.0 < other.0) { unimplemented!() }
        #[verifier::external_body]
        fn le(&self, other: &StatusCode) -> (r: bool) ensures r == (self.0 <= other.0) { unimplemented!() }
        #[verifier::external_body]
        fn gt(&self, other: &StatusCode) -> (r: bool) ensures r == (self.0 > other.0) { unimplemented!() }
        #[verifier::external_body]
        fn ge(&self, other: &StatusCode) -> (r: bool) ensures r == (self.0 >= other.0) { unimplemented!() }
    }
    impl PartialEq<StatusCode> for u16 {
        #[verifier::external_body]
        fn eq(&self, other: &StatusCode) -> (r: bool) ensures r == (*self == other.0) { unimplemented!() }
    }

    // ---------------------------------------------------------------- header names / values
    /// http::HeaderName: a valid, lower-cased header name
    #[verifier::external_body]
    #[derive(Debug)]
    pub struct HeaderName { _p: () }
    /// http::HeaderValue: valid header value bytes (no CR / LF / NUL ...)
    #[verifier::external_body]
    #[derive(Debug)]
    pub struct HeaderValue { _p: () }
    impl HeaderName {
        /// the (lower-case) bytes of the name
        pub uninterp spec fn view(&self) -> Seq<u8>;
        #[verifier::external_body]
        pub const fn from_static(src: &'static str) -> (r: HeaderName)
            ensures r.view() == crate::str_bytes(src)
        { HeaderName { _p: () } }   // (a value, not unimplemented!(): hoot uses it in `const` items, which rustc evaluates)
    }
    impl HeaderValue {
        pub uninterp spec fn view(&self) -> Seq<u8>;
        #[verifier::external_body]
        pub const fn from_static(src: &'static str) -> (r: HeaderValue)
            ensures r.view() == crate::str_bytes(src)
        { HeaderValue { _p: () } }
        #[verifier::external_body]
        pub fn as_bytes(&self) -> (r: &[u8])
            ensures r@ == self.view()
        { unimplemented!() }
        /// HeaderValue::from_str: Ok iff every byte is HTAB or 0x20..=0x7e / 0x80..=0xff
        #[verifier::external_body]
        pub fn from_str(src: &str) -> (r: Result<HeaderValue, InvalidHeaderValue>)
            ensures r is Ok <==> valid_value(crate::str_bytes(src)), r is Ok ==> r->Ok_0.view() == crate::str_bytes(src)
        { unimplemented!() }
        /// visible-ASCII test of HeaderValue::to_str
        pub open spec fn is_text(&self) -> bool {
            forall|i: int| 0 <= i < self.view().len() ==> (32 <= #[trigger] self.view()[i] < 127 || self.view()[i] == 9)
        }
        #[verifier::external_body]
        pub fn to_str(&self) -> (r: Result<&str, ToStrError>)
            ensures r is Ok <==> self.is_text(), r is Ok ==> crate::str_bytes(r->Ok_0) == self.view()
        { unimplemented!() }
    }
    pub struct ToStrError(pub ());
    #[derive(Debug)]
    pub struct InvalidHeaderValue(pub ());
    impl Clone for HeaderValue {
        #[verifier::external_body]
        fn clone(&self) -> (r: Self) ensures r.view() == self.view() { unimplemented!() }
    }
    impl Clone for HeaderName {
        #[verifier::external_body]
        fn clone(&self) -> (r: Self) ensures r.view() == self.view() { unimplemented!() }
    }

    // ---------------------------------------------------------------- header map
    /// ASCII lower-casing of header names (http stores names lower-cased)
    pub open spec fn lower_byte(c: u8) -> u8 { if 65 <= c <= 90 { (c + 32) as u8 } else { c } }
    pub open spec fn lower(b: Seq<u8>) -> Seq<u8> { Seq::new(b.len(), |i: int| lower_byte(b[i])) }
    /// one header field as the model sees it: lower-cased name bytes, value bytes
    pub struct Hdr { pub name: Seq<u8>, pub value: Seq<u8> }
    /// valid header name for `http`: non-empty token, shorter than 64 KiB
    pub uninterp spec fn is_token(b: Seq<u8>) -> bool;
    pub open spec fn valid_name(b: Seq<u8>) -> bool { is_token(b) && 0 < b.len() < 65536 }
    /// valid header value bytes for `http`: HTAB, 0x20..=0x7e, 0x80..=0xff
    pub open spec fn valid_value(b: Seq<u8>) -> bool { forall|i: int| 0 <= i < b.len() ==> (#[trigger] b[i] >= 32 && b[i] != 127) || b[i] == 9 }

    /// first value of the named field
    pub open spec fn first_value(e: Seq<Hdr>, name: Seq<u8>) -> Option<Seq<u8>>
        decreases e.len()
    {
        if e.len() == 0 { None } else if e[0].name == name { Some(e[0].value) } else { first_value(e.subrange(1, e.len() as int), name) }
    }
    /// last value of the named field
    pub open spec fn last_value(e: Seq<Hdr>, name: Seq<u8>) -> Option<Seq<u8>>
        decreases e.len()
    {
        if e.len() == 0 { None } else if e.last().name == name { Some(e.last().value) } else { last_value(e.drop_last(), name) }
    }
    pub open spec fn has_name(e: Seq<Hdr>, name: Seq<u8>) -> bool { exists|i: int| 0 <= i < e.len() && e[i].name == name }
    pub open spec fn has_field(e: Seq<Hdr>, name: Seq<u8>, value: Seq<u8>) -> bool { exists|i: int| 0 <= i < e.len() && e[i].name == name && e[i].value == value }

    #[verifier::external_body]
    #[derive(Debug)]
    pub struct HeaderMap { _p: () }
    impl HeaderMap {
        /// all fields in the order `iter()` yields them (fields of one name are adjacent and in insertion order)
        pub uninterp spec fn entries(&self) -> Seq<Hdr>;
        #[verifier::external_body]
        pub fn new() -> (r: HeaderMap) ensures r.entries() =~= Seq::<Hdr>::empty() { unimplemented!() }
        #[verifier::external_body]
        pub fn get(&self, name: &str) -> (r: Option<&HeaderValue>)
            ensures match first_value(self.entries(), lower(crate::str_bytes(name))) { Some(v) => r is Some && r->Some_0.view() == v, None => r is None }
        { unimplemented!() }
        #[verifier::external_body]
        pub fn contains_key(&self, name: &str) -> (r: bool)
            ensures r == has_name(self.entries(), lower(crate::str_bytes(name)))
        { unimplemented!() }
        #[verifier::external_body]
        pub fn is_empty(&self) -> (r: bool) ensures r == (self.entries().len() == 0) { unimplemented!() }
        /// N9: `get_all(name).into_iter().last().cloned()`
        #[verifier::external_body]
        pub fn last_value_of(&self, name: &str) -> (r: Option<HeaderValue>)
            ensures match last_value(self.entries(), lower(crate::str_bytes(name))) { Some(v) => r is Some && r->Some_0.view() == v, None => r is None }
        { unimplemented!() }
        /// `insert` replaces every field of that name by the one given
        #[verifier::external_body]
        pub fn insert(&mut self, name: &'static str, value: HeaderValue) -> (r: Option<HeaderValue>)
            ensures
                has_field(final(self).entries(), lower(crate::str_bytes(name)), value.view()),
                forall|n: Seq<u8>, v: Seq<u8>| n != lower(crate::str_bytes(name)) ==> (has_field(final(self).entries(), n, v) <==> has_field(old(self).entries(), n, v)),
                forall|n: Seq<u8>| n != lower(crate::str_bytes(name)) ==> first_value(final(self).entries(), n) == first_value(old(self).entries(), n) && last_value(final(self).entries(), n) == last_value(old(self).entries(), n),
                first_value(final(self).entries(), lower(crate::str_bytes(name))) == Some(value.view()),
        { unimplemented!() }
    }

    // ---------------------------------------------------------------- Uri
    #[verifier::external_body]
    #[derive(Debug)]
    pub struct Uri { _p: () }
    pub mod uri {
        use vstd::prelude::*;
        #[verifier::external_body]
        #[derive(Debug)]
        pub struct Scheme { _p: () }
        impl Scheme {
            pub uninterp spec fn view(&self) -> Seq<u8>;
            /// the `https` scheme
            pub uninterp spec fn https_bytes() -> Seq<u8>;
            #[verifier::external_body]
            pub fn https() -> (r: &'static Scheme) ensures r.view() == Self::https_bytes() { unimplemented!() }
        }
        /// N9: `==` on Option<&Scheme> / Option<&str> (derived / std PartialEq: equal iff both absent or same text)
        #[verifier::external_body]
        pub fn opt_scheme_eq(a: Option<&Scheme>, b: Option<&Scheme>) -> (r: bool)
            ensures r == (match (a, b) { (Some(x), Some(y)) => x.view() == y.view(), (None, None) => true, _ => false })
        { unimplemented!() }
        #[verifier::external_body]
        pub fn opt_str_eq(a: Option<&str>, b: Option<&str>) -> (r: bool)
            ensures r == (match (a, b) { (Some(x), Some(y)) => crate::str_bytes(x) == crate::str_bytes(y), (None, None) => true, _ => false })
        { unimplemented!() }
        impl Authority {
            pub uninterp spec fn host_view(&self) -> Seq<u8>;
            #[verifier::external_body]
            pub fn host(&self) -> (r: &str) ensures crate::str_bytes(r) == self.host_view() { unimplemented!() }
        }
        #[verifier::external_body]
        #[derive(Debug)]
        pub struct Authority { _p: () }
        #[verifier::external_body]
        #[derive(Debug)]
        pub struct PathAndQuery { _p: () }
        impl PathAndQuery {
            pub uninterp spec fn view(&self) -> Seq<u8>;
            #[verifier::external_body]
            pub fn as_str(&self) -> (r: &str) ensures crate::str_bytes(r) == self.view() { unimplemented!() }
        }
        pub struct InvalidUri(pub ());
    }
    impl Uri {
        /// host of the authority, None for a relative URI
        pub uninterp spec fn spec_host(&self) -> Option<Seq<u8>>;
        /// scheme ("http" / "https" ...), None if absent
        pub uninterp spec fn spec_scheme(&self) -> Option<Seq<u8>>;
        /// path and query as sent in the request line, None if empty
        pub uninterp spec fn spec_path_and_query(&self) -> Option<Seq<u8>>;
        /// textual form (`to_string`)
        pub uninterp spec fn spec_text(&self) -> Seq<u8>;
        #[verifier::external_body]
        pub fn host(&self) -> (r: Option<&str>)
            ensures match self.spec_host() { Some(h) => r is Some && crate::str_bytes(r->Some_0) == h, None => r is None }
        { unimplemented!() }
        #[verifier::external_body]
        pub fn authority(&self) -> (r: Option<&uri::Authority>)
            ensures match self.spec_host() { Some(h) => r is Some && r->Some_0.host_view() == h, None => r is None }
        { unimplemented!() }
        #[verifier::external_body]
        pub fn scheme(&self) -> (r: Option<&uri::Scheme>)
            ensures match self.spec_scheme() { Some(s) => r is Some && r->Some_0.view() == s, None => r is None }
        { unimplemented!() }
        #[verifier::external_body]
        pub fn path_and_query(&self) -> (r: Option<&uri::PathAndQuery>)
            ensures match self.spec_path_and_query() { Some(p) => r is Some && r->Some_0.view() == p, None => r is None }
        { unimplemented!() }
        #[verifier::external_body]
        pub fn to_string(&self) -> (r: String)
            ensures crate::utf8_bytes(r@) == self.spec_text()
        { unimplemented!() }
    }
    impl core::str::FromStr for Uri {
        type Err = uri::InvalidUri;
        #[verifier::external_body]
        fn from_str(s: &str) -> (r: Result<Uri, uri::InvalidUri>) { unimplemented!() }
    }

    // ---------------------------------------------------------------- Request / Response
    #[verifier::external_body]
    #[verifier::accept_recursive_types(B)]
    #[derive(Debug)]
    pub struct Request<B> { _b: core::marker::PhantomData<B> }
    impl<B> Request<B> {
        pub uninterp spec fn spec_method(&self) -> Method;
        pub uninterp spec fn spec_version(&self) -> Version;
        pub uninterp spec fn spec_headers(&self) -> HeaderMap;
        pub uninterp spec fn spec_uri(&self) -> Uri;
        pub uninterp spec fn spec_body(&self) -> B;
        #[verifier::external_body]
        pub fn method(&self) -> (r: &Method) ensures *r == self.spec_method() { unimplemented!() }
        #[verifier::external_body]
        pub fn version(&self) -> (r: Version) ensures r == self.spec_version() { unimplemented!() }
        #[verifier::external_body]
        pub fn headers(&self) -> (r: &HeaderMap) ensures *r == self.spec_headers() { unimplemented!() }
        #[verifier::external_body]
        pub fn uri(&self) -> (r: &Uri) ensures *r == self.spec_uri() { unimplemented!() }
        /// two requests with the same head (everything but the body)
        pub open spec fn same_head<C>(&self, other: &Request<C>) -> bool {
            self.spec_method() == other.spec_method() && self.spec_version() == other.spec_version()
                && self.spec_headers() == other.spec_headers() && self.spec_uri() == other.spec_uri()
        }
        /// Request::new: GET, "/", HTTP/1.1, no headers
        #[verifier::external_body]
        pub fn new(body: B) -> (r: Request<B>)
            ensures r.spec_body() == body, r.spec_method() == Method::GET, r.spec_version() == Version::HTTP_11, r.spec_headers().entries().len() == 0
        { unimplemented!() }
        #[verifier::external_body]
        pub fn into_parts(self) -> (r: (request::Parts, B))
            ensures r.1 == self.spec_body(), r.0.method == self.spec_method(), r.0.version == self.spec_version(),
                r.0.headers == self.spec_headers(), r.0.uri == self.spec_uri()
        { unimplemented!() }
        #[verifier::external_body]
        pub fn from_parts(parts: request::Parts, body: B) -> (r: Request<B>)
            ensures r.spec_body() == body, r.spec_method() == parts.method, r.spec_version() == parts.version,
                r.spec_headers() == parts.headers, r.spec_uri() == parts.uri
        { unimplemented!() }
        #[verifier::external_body]
        pub fn method_mut(&mut self) -> (r: &mut Method)
            ensures *r == old(self).spec_method(), *final(r) == final(self).spec_method(),
                final(self).spec_version() == old(self).spec_version(), final(self).spec_headers() == old(self).spec_headers(),
                final(self).spec_uri() == old(self).spec_uri(), final(self).spec_body() == old(self).spec_body()
        { unimplemented!() }
    }

    #[verifier::external_body]
    #[verifier::accept_recursive_types(B)]
    #[derive(Debug)]
    pub struct Response<B> { _b: core::marker::PhantomData<B> }
    impl<B> Response<B> {
        pub uninterp spec fn spec_status(&self) -> StatusCode;
        pub uninterp spec fn spec_version(&self) -> Version;
        pub uninterp spec fn spec_headers(&self) -> HeaderMap;
        #[verifier::external_body]
        pub fn status(&self) -> (r: StatusCode) ensures r == self.spec_status() { unimplemented!() }
        #[verifier::external_body]
        pub fn version(&self) -> (r: Version) ensures r == self.spec_version() { unimplemented!() }
        #[verifier::external_body]
        pub fn headers(&self) -> (r: &HeaderMap) ensures *r == self.spec_headers() { unimplemented!() }
        #[verifier::external_body]
        pub fn headers_mut(&mut self) -> (r: &mut HeaderMap)
            ensures *r == old(self).spec_headers(), *final(r) == final(self).spec_headers(),
                final(self).spec_status() == old(self).spec_status(), final(self).spec_version() == old(self).spec_version()
        { unimplemented!() }
    }
    impl Response<()> {
        #[verifier::external_body]
        pub fn builder() -> (r: response::Builder)
            ensures r.state() == Ok::<response::BParts, ()>(response::BParts { version: Version::HTTP_11, status: StatusCode(200), headers: Seq::<Hdr>::empty() })
        { unimplemented!() }
    }
    impl Request<()> {
        #[verifier::external_body]
        pub fn builder() -> (r: request::Builder)
            ensures r.state() == Ok::<request::BParts, ()>(request::BParts { version: Version::HTTP_11, method: Method::GET, headers: Seq::<Hdr>::empty() })
        { unimplemented!() }
    }
    /// http::Error (opaque)
    #[verifier::external_body]
    #[derive(Debug)]
    pub struct Error { _p: () }
    pub struct InvalidHeaderName(pub ());
    // conversions that `AmendedRequest::set_header` / `unset_header` are generic over (signatures only)
    impl From<core::convert::Infallible> for Error {
        #[verifier::external_body]
        fn from(e: core::convert::Infallible) -> Error { unimplemented!() }
    }
    impl From<InvalidHeaderName> for Error {
        #[verifier::external_body]
        fn from(e: InvalidHeaderName) -> Error { unimplemented!() }
    }
    impl From<InvalidHeaderValue> for Error {
        #[verifier::external_body]
        fn from(e: InvalidHeaderValue) -> Error { unimplemented!() }
    }
    impl<'a> TryFrom<&'a str> for HeaderName {
        type Error = InvalidHeaderName;
        #[verifier::external_body]
        fn try_from(s: &'a str) -> Result<HeaderName, InvalidHeaderName> { unimplemented!() }
    }
    impl<'a> TryFrom<&'a str> for HeaderValue {
        type Error = InvalidHeaderValue;
        #[verifier::external_body]
        fn try_from(s: &'a str) -> Result<HeaderValue, InvalidHeaderValue> { unimplemented!() }
    }

    pub mod response {
        use vstd::prelude::*;
        use super::*;
        pub struct BParts { pub version: Version, pub status: StatusCode, pub headers: Seq<Hdr> }
        /// http::response::Builder: either the parts collected so far or a recorded error
        #[verifier::external_body]
        pub struct Builder { _p: () }
        impl Builder {
            pub uninterp spec fn state(&self) -> Result<BParts, ()>;
            #[verifier::external_body]
            pub fn version(self, version: Version) -> (r: Builder)
                ensures r.state() == match self.state() { Ok(p) => Ok::<BParts, ()>(BParts { version, ..p }), Err(e) => Err(e) }
            { unimplemented!() }
            #[verifier::external_body]
            pub fn status(self, status: StatusCode) -> (r: Builder)
                ensures r.state() == match self.state() { Ok(p) => Ok::<BParts, ()>(BParts { status, ..p }), Err(e) => Err(e) }
            { unimplemented!() }
            /// appends the field; records an error (never panics) on an invalid name or value
            #[verifier::external_body]
            pub fn header(self, name: &str, value: &[u8]) -> (r: Builder)
                ensures r.state() == match self.state() {
                    Ok(p) => if valid_name(crate::str_bytes(name)) && valid_value(value@) {
                            Ok::<BParts, ()>(BParts { headers: p.headers.push(Hdr { name: lower(crate::str_bytes(name)), value: value@ }), ..p })
                        } else { Err(()) },
                    Err(e) => Err(e) }
            { unimplemented!() }
            #[verifier::external_body]
            pub fn body(self, body: ()) -> (r: Result<Response<()>, super::Error>)
                ensures match self.state() {
                    Ok(p) => r is Ok && r->Ok_0.spec_version() == p.version && r->Ok_0.spec_status() == p.status && hdr_multiset_order(r->Ok_0.spec_headers().entries(), p.headers),
                    Err(_) => r is Err }
            { unimplemented!() }
        }
    }
    pub mod request {
        use vstd::prelude::*;
        use super::*;
        /// http::request::Parts (public fields, as in http)
        pub struct Parts { pub method: Method, pub uri: Uri, pub version: Version, pub headers: HeaderMap }
        pub struct BParts { pub version: Version, pub method: Method, pub headers: Seq<Hdr> }
        #[verifier::external_body]
        pub struct Builder { _p: () }
        impl Builder {
            pub uninterp spec fn state(&self) -> Result<BParts, ()>;
            #[verifier::external_body]
            pub fn version(self, version: Version) -> (r: Builder)
                ensures r.state() == match self.state() { Ok(p) => Ok::<BParts, ()>(BParts { version, ..p }), Err(e) => Err(e) }
            { unimplemented!() }
            #[verifier::external_body]
            pub fn method(self, method: Method) -> (r: Builder)
                ensures r.state() == match self.state() { Ok(p) => Ok::<BParts, ()>(BParts { method, ..p }), Err(e) => Err(e) }
            { unimplemented!() }
            #[verifier::external_body]
            pub fn header(self, name: &str, value: &[u8]) -> (r: Builder)
                ensures r.state() == match self.state() {
                    Ok(p) => if valid_name(crate::str_bytes(name)) && valid_value(value@) {
                            Ok::<BParts, ()>(BParts { headers: p.headers.push(Hdr { name: lower(crate::str_bytes(name)), value: value@ }), ..p })
                        } else { Err(()) },
                    Err(e) => Err(e) }
            { unimplemented!() }
            #[verifier::external_body]
            pub fn body(self, body: ()) -> (r: Result<Request<()>, super::Error>)
                ensures match self.state() {
                    Ok(p) => r is Ok && r->Ok_0.spec_version() == p.version && r->Ok_0.spec_method() == p.method && hdr_multiset_order(r->Ok_0.spec_headers().entries(), p.headers),
                    Err(_) => r is Err }
            { unimplemented!() }
        }
    }
    /// the map built from `appended` (in append order) holds exactly those fields; fields of equal name keep
    /// their relative order (HeaderMap groups fields by name, so the global order may differ)
    pub open spec fn hdr_multiset_order(entries: Seq<Hdr>, appended: Seq<Hdr>) -> bool {
        &&& entries.len() == appended.len()
        &&& forall|n: Seq<u8>| #[trigger] by_name(entries, n) == by_name(appended, n)
    }
    /// the values of the fields named n, in order
    pub open spec fn by_name(e: Seq<Hdr>, n: Seq<u8>) -> Seq<Seq<u8>>
        decreases e.len()
    {
        if e.len() == 0 { Seq::<Seq<u8>>::empty() } else if e.last().name == n { by_name(e.drop_last(), n).push(e.last().value) } else { by_name(e.drop_last(), n) }
    }

    pub proof fn lemma_first_value_some_len(e: Seq<Hdr>, n: Seq<u8>)
        ensures first_value(e, n) is Some ==> e.len() >= 1
    {}
    /// a first value found in a ++ k is still found when a grows at its end
    pub proof fn lemma_first_value_prefix(a: Seq<Hdr>, k: Seq<Hdr>, a2: Seq<Hdr>, n: Seq<u8>)
        requires a.is_prefix_of(a2), first_value(a + k, n) is Some
        ensures first_value(a2 + k, n) is Some
        decreases a.len()
    {
        if a.len() == 0 {
            assert(a + k =~= k);
            lemma_first_value_suffix(a2, k, n);
        } else {
            assert((a + k)[0] == a[0]);
            assert((a2 + k)[0] == a[0]);
            if a[0].name == n {
            } else {
                assert((a + k).subrange(1, (a + k).len() as int) =~= a.subrange(1, a.len() as int) + k);
                assert((a2 + k).subrange(1, (a2 + k).len() as int) =~= a2.subrange(1, a2.len() as int) + k);
                lemma_first_value_prefix(a.subrange(1, a.len() as int), k, a2.subrange(1, a2.len() as int), n);
            }
        }
    }
    pub proof fn lemma_first_value_suffix(a: Seq<Hdr>, k: Seq<Hdr>, n: Seq<u8>)
        requires first_value(k, n) is Some
        ensures first_value(a + k, n) is Some
        decreases a.len()
    {
        if a.len() == 0 {
            assert(a + k =~= k);
        } else {
            assert((a + k)[0] == a[0]);
            if a[0].name != n {
                assert((a + k).subrange(1, (a + k).len() as int) =~= a.subrange(1, a.len() as int) + k);
                lemma_first_value_suffix(a.subrange(1, a.len() as int), k, n);
            }
        }
    }

    pub proof fn lemma_has_name_by_name(e: Seq<Hdr>, n: Seq<u8>)
        ensures has_name(e, n) <==> by_name(e, n).len() > 0
        decreases e.len()
    {
        if e.len() > 0 {
            lemma_has_name_by_name(e.drop_last(), n);
            if e.last().name == n {
                assert(e[e.len() - 1].name == n);
            } else if has_name(e, n) {
                let i = choose|i: int| 0 <= i < e.len() && e[i].name == n;
                assert(e.drop_last()[i].name == n);
            } else if has_name(e.drop_last(), n) {
                let i = choose|i: int| 0 <= i < e.drop_last().len() && e.drop_last()[i].name == n;
                assert(e[i].name == n);
            }
        }
    }
    /// first_value in terms of by_name (so that it is preserved by hdr_multiset_order)
    pub proof fn lemma_first_value_by_name(e: Seq<Hdr>, n: Seq<u8>)
        ensures first_value(e, n) == (if by_name(e, n).len() > 0 { Some(by_name(e, n)[0]) } else { None::<Seq<u8>> })
        decreases e.len()
    {
        if e.len() > 0 {
            let d = e.drop_last();
            lemma_first_value_by_name(d, n);
            lemma_first_value_push(d, e.last(), n);
            assert(d.push(e.last()) =~= e);
        }
    }
    pub proof fn lemma_first_value_push(e: Seq<Hdr>, h: Hdr, n: Seq<u8>)
        ensures first_value(e.push(h), n) == (match first_value(e, n) { Some(v) => Some(v), None => if h.name == n { Some(h.value) } else { None } })
        decreases e.len()
    {
        reveal_with_fuel(first_value, 3);
        if e.len() == 0 {
            assert(e.push(h).subrange(1, 1) =~= Seq::<Hdr>::empty());
            assert(e.push(h)[0] == h);
        } else {
            assert(e.push(h)[0] == e[0]);
            if e[0].name != n {
                assert(e.push(h).subrange(1, e.push(h).len() as int) =~= e.subrange(1, e.len() as int).push(h));
                lemma_first_value_push(e.subrange(1, e.len() as int), h, n);
            }
        }
    }
