// ---------------------------------------------------------------------------
// TRUSTED PREAMBLE: stub of `httparse` 1.9 (module `httparse`).
// `parse` is an uninterpreted function of (input bytes, header capacity); what it
// accepts is NOT verified.  The axioms at the end state what is assumed about
// well-formed heads (exercised by the bounded conformance run, replay/conformance).
// ---------------------------------------------------------------------------
use crate::http::{valid_name, valid_value, is_token};

#[derive(Clone, Copy, Debug)]
pub struct Header<'a> {
    pub name: &'a str,
    pub value: &'a [u8],
}
impl<'a> Header<'a> {
    pub open spec fn is_empty_slot(&self) -> bool { crate::str_bytes(self.name).len() == 0 && self.value@.len() == 0 }
}
/// N9: `[httparse::EMPTY_HEADER; N]`
#[verifier::external_body]
pub fn empty_headers<const N: usize>() -> (r: [Header<'static>; N])
    ensures forall|i: int| 0 <= i < N ==> (#[trigger] r@[i]).is_empty_slot()
{ unimplemented!() }

#[derive(Debug, PartialEq, Eq, Clone, Copy, Structural)]
pub enum Error { HeaderName, HeaderValue, NewLine, Status, Token, TooManyHeaders, Version }
impl Error {
    /// `to_string()` of the error (uninterpreted text)
    pub uninterp spec fn text(&self) -> Seq<char>;
}
#[derive(Debug)]
pub enum Status<T> { Complete(T), Partial }

/// one parsed field: name as sent, value with surrounding white space stripped
pub struct PField { pub name: Seq<u8>, pub value: Seq<u8> }
pub struct Parsed { pub version: Option<u8>, pub code: Option<u16>, pub method: Option<Seq<u8>>, pub fields: Seq<PField> }
pub enum Outcome { Complete(nat, Parsed), Partial(Parsed), Err(Error) }

/// the (deterministic) result of httparse::Response::parse on `buf` with room for `cap` headers
pub uninterp spec fn parse_response(buf: Seq<u8>, cap: nat) -> Outcome;
/// the result of httparse::Request::parse
pub uninterp spec fn parse_request(buf: Seq<u8>, cap: nat) -> Outcome;

/// general facts about any outcome (arbitrary bytes): bounds and validity of what is reported
pub open spec fn outcome_ok(o: Outcome, buf: Seq<u8>, cap: nat) -> bool {
    match o {
        Outcome::Complete(n, p) => n <= buf.len() && p.fields.len() <= cap && parsed_ok(p),
        Outcome::Partial(p) => p.fields.len() <= cap && parsed_ok(p),
        Outcome::Err(_) => true,
    }
}
pub open spec fn parsed_ok(p: Parsed) -> bool {
    &&& (p.version matches Some(v) ==> v <= 1)
    &&& (p.code matches Some(c) ==> c <= 999)
    &&& forall|i: int| 0 <= i < p.fields.len() ==> is_token((#[trigger] p.fields[i]).name) && p.fields[i].name.len() > 0 && valid_value(p.fields[i].value)
}
#[verifier::external_body]
pub broadcast proof fn axiom_outcome_ok_response(buf: Seq<u8>, cap: nat)
    ensures outcome_ok(#[trigger] parse_response(buf, cap), buf, cap)
{}
#[verifier::external_body]
pub broadcast proof fn axiom_outcome_ok_request(buf: Seq<u8>, cap: nat)
    ensures outcome_ok(#[trigger] parse_request(buf, cap), buf, cap)
{}
pub broadcast group axiom_outcome_ok { axiom_outcome_ok_response, axiom_outcome_ok_request }

/// slots [0, k) hold the fields, in order
pub open spec fn slots_hold(h: Seq<Header>, fields: Seq<PField>) -> bool {
    &&& fields.len() <= h.len()
    &&& forall|i: int| 0 <= i < fields.len() ==> crate::str_bytes((#[trigger] h[i]).name) == fields[i].name && h[i].value@ == fields[i].value
}

pub struct Response<'h, 'b> {
    pub version: Option<u8>,
    pub code: Option<u16>,
    pub reason: Option<&'b str>,
    pub headers: &'h mut [Header<'b>],
}
impl<'h, 'b> Response<'h, 'b> {
    #[verifier::external_body]
    pub fn new(headers: &'h mut [Header<'b>]) -> (r: Response<'h, 'b>)
        ensures r.version is None, r.code is None, r.headers@ == old(headers)@
    { unimplemented!() }

    /// Complete: `headers` is shrunk to the parsed fields.  Partial / Err: `headers` keeps its length,
    /// completely received fields first, untouched (empty) slots after them.
    #[verifier::external_body]
    pub fn parse(&mut self, buf: &'b [u8]) -> (r: Result<Status<usize>, Error>)
        requires forall|i: int| 0 <= i < old(self).headers@.len() ==> (#[trigger] old(self).headers@[i]).is_empty_slot()
        ensures
            match parse_response(buf@, old(self).headers@.len() as nat) {
                Outcome::Complete(n, p) => r == Ok::<Status<usize>, Error>(Status::Complete(n as usize)) && n <= usize::MAX
                    && final(self).version == p.version && final(self).code == p.code
                    && final(self).headers@.len() == p.fields.len() && slots_hold(final(self).headers@, p.fields),
                Outcome::Partial(p) => r == Ok::<Status<usize>, Error>(Status::Partial)
                    && final(self).version == p.version && final(self).code == p.code
                    && final(self).headers@.len() == old(self).headers@.len() && slots_hold(final(self).headers@, p.fields)
                    && forall|i: int| p.fields.len() <= i < final(self).headers@.len() ==> (#[trigger] final(self).headers@[i]).is_empty_slot(),
                Outcome::Err(e) => r == Err::<Status<usize>, Error>(e),
            }
    { unimplemented!() }
}

pub struct Request<'h, 'b> {
    pub method: Option<&'b str>,
    pub path: Option<&'b str>,
    pub version: Option<u8>,
    pub headers: &'h mut [Header<'b>],
}
impl<'h, 'b> Request<'h, 'b> {
    #[verifier::external_body]
    pub fn new(headers: &'h mut [Header<'b>]) -> (r: Request<'h, 'b>)
        ensures r.version is None, r.method is None, r.headers@ == old(headers)@
    { unimplemented!() }

    #[verifier::external_body]
    pub fn parse(&mut self, buf: &'b [u8]) -> (r: Result<Status<usize>, Error>)
        requires forall|i: int| 0 <= i < old(self).headers@.len() ==> (#[trigger] old(self).headers@[i]).is_empty_slot()
        ensures
            match parse_request(buf@, old(self).headers@.len() as nat) {
                Outcome::Complete(n, p) => r == Ok::<Status<usize>, Error>(Status::Complete(n as usize)) && n <= usize::MAX
                    && final(self).version == p.version
                    && (match p.method { Some(m) => final(self).method is Some && crate::str_bytes(final(self).method->Some_0) == m, None => final(self).method is None })
                    && final(self).headers@.len() == p.fields.len() && slots_hold(final(self).headers@, p.fields),
                Outcome::Partial(p) => r == Ok::<Status<usize>, Error>(Status::Partial),
                Outcome::Err(e) => r == Err::<Status<usize>, Error>(e),
            }
    { unimplemented!() }
}

// ---------------------------------------------------------------------------
// what is assumed about WELL-FORMED response heads (C05, C11, C20)
// ---------------------------------------------------------------------------
pub open spec fn is_ows(b: Seq<u8>) -> bool { forall|i: int| 0 <= i < b.len() ==> b[i] == 32 || b[i] == 9 }
pub struct Field { pub name: Seq<u8>, pub lead: Seq<u8>, pub value: Seq<u8>, pub trail: Seq<u8> }
pub struct Head { pub minor: u8, pub code: u16, pub reason: Seq<u8>, pub fields: Seq<Field> }
pub uninterp spec fn valid_reason(b: Seq<u8>) -> bool;
pub open spec fn wf_field(f: Field) -> bool {
    &&& is_token(f.name) && f.name.len() > 0
    &&& is_ows(f.lead) && is_ows(f.trail) && valid_value(f.value)
    &&& (f.value.len() > 0 ==> !(f.value[0] == 32 || f.value[0] == 9) && !(f.value.last() == 32 || f.value.last() == 9))
}
pub open spec fn wf_head(h: Head) -> bool {
    &&& h.minor <= 1 && 100 <= h.code <= 999 && valid_reason(h.reason)
    &&& forall|i: int| 0 <= i < h.fields.len() ==> wf_field(#[trigger] h.fields[i])
}
pub open spec fn digit(d: int) -> u8 { (48 + d) as u8 }
pub open spec fn render_status_line(h: Head) -> Seq<u8> {
    seq![72u8, 84u8, 84u8, 80u8, 47u8, 49u8, 46u8, digit(h.minor as int), 32u8,
         digit(h.code as int / 100), digit((h.code as int / 10) % 10), digit(h.code as int % 10), 32u8] + h.reason + seq![13u8, 10u8]
}
pub open spec fn render_field(f: Field) -> Seq<u8> { f.name + seq![58u8] + f.lead + f.value + f.trail + seq![13u8, 10u8] }
pub open spec fn render_fields(fs: Seq<Field>) -> Seq<u8>
    decreases fs.len()
{
    if fs.len() == 0 { Seq::<u8>::empty() } else { render_fields(fs.drop_last()) + render_field(fs.last()) }
}
pub open spec fn render_head(h: Head) -> Seq<u8> { render_status_line(h) + render_fields(h.fields) + seq![13u8, 10u8] }
pub open spec fn parsed_fields(fs: Seq<Field>) -> Seq<PField> { Seq::new(fs.len(), |i: int| PField { name: fs[i].name, value: fs[i].value }) }

/// ASSUMED (httparse conformance, bounded run only): a well-formed head followed by anything parses
/// completely when it fits the capacity, is rejected with TooManyHeaders when it does not, and every
/// strict prefix is Partial while at most `cap` fields have started (TooManyHeaders once field cap+1
/// has started - in particular while the input ends inside or right after the status line, whatever the
/// capacity); a Partial outcome reports only completely received fields.
#[verifier::external_body]
pub proof fn axiom_wellformed_response(h: Head, rest: Seq<u8>, cap: nat)
    requires wf_head(h)
    ensures
        h.fields.len() <= cap ==> parse_response(render_head(h) + rest, cap)
            == Outcome::Complete(render_head(h).len(), Parsed { version: Some(h.minor), code: Some(h.code), method: None, fields: parsed_fields(h.fields) }),
        h.fields.len() > cap ==> parse_response(render_head(h) + rest, cap) == Outcome::Err(Error::TooManyHeaders),
{}
#[verifier::external_body]
pub proof fn axiom_wellformed_response_prefix(h: Head, k: int, cap: nat)
    requires wf_head(h), 0 <= k < render_head(h).len(), h.fields.len() <= cap || k <= render_status_line(h).len()
    ensures
        parse_response(render_head(h).subrange(0, k), cap) matches Outcome::Partial(p)
            && (exists|j: int| 0 <= j <= h.fields.len() && p.fields == #[trigger] parsed_fields(h.fields.subrange(0, j))
                && render_status_line(h).len() + render_fields(h.fields.subrange(0, j)).len() <= k)
            && (p.version is Some ==> p.version == Some(h.minor) && k >= 8)
            && (p.code is Some ==> p.code == Some(h.code) && p.version is Some && k >= 12)
            && (p.fields.len() > 0 ==> p.code is Some),
{}

// ---------------------------------------------------------------------------
// what is assumed about WELL-FORMED request heads (C20, request parser)
// ---------------------------------------------------------------------------
pub struct ReqHead { pub method: Seq<u8>, pub target: Seq<u8>, pub minor: u8, pub fields: Seq<Field> }
pub uninterp spec fn valid_target(b: Seq<u8>) -> bool;
pub open spec fn wf_req_head(h: ReqHead) -> bool {
    &&& is_token(h.method) && h.method.len() > 0 && valid_target(h.target) && h.minor <= 1
    &&& forall|i: int| 0 <= i < h.fields.len() ==> wf_field(#[trigger] h.fields[i])
}
pub open spec fn render_request_line(h: ReqHead) -> Seq<u8> {
    h.method + seq![32u8] + h.target + seq![32u8, 72u8, 84u8, 84u8, 80u8, 47u8, 49u8, 46u8, digit(h.minor as int), 13u8, 10u8]
}
pub open spec fn render_req_head(h: ReqHead) -> Seq<u8> { render_request_line(h) + render_fields(h.fields) + seq![13u8, 10u8] }
/// ASSUMED (httparse conformance, bounded run only): as for responses
#[verifier::external_body]
pub proof fn axiom_wellformed_request(h: ReqHead, rest: Seq<u8>, cap: nat)
    requires wf_req_head(h)
    ensures
        h.fields.len() <= cap ==> parse_request(render_req_head(h) + rest, cap)
            == Outcome::Complete(render_req_head(h).len(), Parsed { version: Some(h.minor), code: None, method: Some(h.method), fields: parsed_fields(h.fields) }),
        h.fields.len() > cap ==> parse_request(render_req_head(h) + rest, cap) == Outcome::Err(Error::TooManyHeaders),
{}
#[verifier::external_body]
pub proof fn axiom_wellformed_request_prefix(h: ReqHead, k: int, cap: nat)
    requires wf_req_head(h), 0 <= k < render_req_head(h).len(), h.fields.len() <= cap
    ensures parse_request(render_req_head(h).subrange(0, k), cap) is Partial
{}
