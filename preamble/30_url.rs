// ---------------------------------------------------------------------------
// TRUSTED PREAMBLE: stub of `url` 2.5 (module `url`): parsing and RFC 3986 reference resolution
// are uninterpreted functions; only "a parsed URL prints as text" and "join = resolve" are assumed.
// ---------------------------------------------------------------------------
#[verifier::external_body]
#[derive(Debug)]
pub struct Url { _p: () }
#[derive(Debug)]
pub struct ParseError(pub ());
/// Url::parse as a function of the text: Some(normalised text) or None
pub uninterp spec fn spec_url_parse(text: Seq<u8>) -> Option<Seq<u8>>;
/// RFC 3986 section 5 reference resolution of `reference` against the base URL text; None = unresolvable
pub uninterp spec fn rfc3986_resolve(base: Seq<u8>, reference: Seq<u8>) -> Option<Seq<u8>>;
impl Url {
    /// the serialisation of the URL
    pub uninterp spec fn text(&self) -> Seq<u8>;
    #[verifier::external_body]
    pub fn parse(input: &str) -> (r: Result<Url, ParseError>)
        ensures match spec_url_parse(crate::str_bytes(input)) { Some(t) => r is Ok && r->Ok_0.text() == t, None => r is Err }
    { unimplemented!() }
    #[verifier::external_body]
    pub fn join(&self, input: &str) -> (r: Result<Url, ParseError>)
        ensures match rfc3986_resolve(self.text(), crate::str_bytes(input)) { Some(t) => r is Ok && r->Ok_0.text() == t, None => r is Err }
    { unimplemented!() }
    #[verifier::external_body]
    pub fn to_string(&self) -> (r: String)
        ensures crate::utf8_bytes(r@) == self.text()
    { unimplemented!() }
}
