//! Executable twins of the properties C01..C20 at the public API of ureq-proto.
//!
//! Used for two things (DESIGN.md 4.6 / 4.7), both BOUNDED and never counted as proof:
//!  * replay: after a failed Verus obligation, search a small scope for a concrete failing input;
//!  * bounded stand-ins: exercise the assumed contracts of code that stays outside the verifier
//!    (iterator pipelines in amended.rs / ext.rs / body.rs, httparse, url).
//!
//! Copied to <scratch copy of /repo>/tests/twin.rs and run with
//!   VERIF_TWIN=C03,C19 cargo test --offline --test twin -- --nocapture
//! Prints `TWIN <id> evaluations=<n> distinct=<m>` per twin and `TWIN-FAIL <id> <description>` on the
//! first failing input of a twin.
#![allow(dead_code, clippy::all)]

use ureq_proto::client::flow::state::{Prepare, RecvBody, RecvResponse, SendBody, SendRequest};
use ureq_proto::client::flow::{
    Await100Result, Flow, RecvBodyResult, RecvResponseResult, RedirectAuthHeaders, SendRequestResult,
};
use ureq_proto::http::{Method, Request, Version};
use ureq_proto::parser::{try_parse_partial_response, try_parse_request, try_parse_response};
use ureq_proto::{BodyMode, Error};

type R = Result<(u64, u64), String>;

/// Several twins serve more than one property; their failure messages start with the property they belong to
/// ("[C13] ..").  A failure that belongs to a property this run was not asked about (VERIF_TWIN) must neither be blamed
/// on the requested one nor stop the twin before it reaches the requested property's own checks: it is skipped.
fn tag_applies(msg: &str) -> bool {
    let sel = std::env::var("VERIF_TWIN").unwrap_or_else(|_| "ALL".into());
    if sel == "ALL" || sel.split(',').any(|p| p == "C01") {
        return true;
    }
    match (msg.find('['), msg.find(']')) {
        (Some(0), Some(e)) => msg[1..e].split(',').any(|t| sel.split(',').any(|p| p == t)),
        _ => true,
    }
}
macro_rules! tagged_fail {
    ($($arg:tt)*) => {{
        let m = format!($($arg)*);
        if tag_applies(&m) {
            return Err(m);
        }
    }};
}

fn big() -> bool {
    std::env::var("VERIF_TIER").map(|v| v == "thorough").unwrap_or(false)
}

// ------------------------------------------------------------------------------------------------ helpers
fn send_head(flow: &mut Flow<(), SendRequest>, sizes: &[usize]) -> Result<Vec<u8>, String> {
    // writes the head with the given buffer-size schedule (last size repeated), checking line atomicity
    let mut out = Vec::new();
    let mut k = 0;
    let mut rounds = 0;
    while !flow.can_proceed() {
        let sz = sizes[k.min(sizes.len() - 1)];
        k += 1;
        rounds += 1;
        if rounds > 500 {
            return Err("head writer does not terminate".into());
        }
        let mut buf = vec![0u8; sz];
        match flow.write(&mut buf) {
            Ok(n) => {
                if n > sz {
                    return Err(format!("wrote {} into buffer of {}", n, sz));
                }
                if n > 0 && !buf[..n].ends_with(b"\r\n") {
                    return Err(format!("partial line emitted: {:?}", String::from_utf8_lossy(&buf[..n])));
                }
                if n == 0 && !flow.can_proceed() {
                    return Err("Ok(0) without progress and not complete".into());
                }
                out.extend_from_slice(&buf[..n]);
            }
            Err(Error::OutputOverflow) => {
                // must have emitted nothing; retry with a much larger buffer to make progress
                let mut big = vec![0u8; 8192];
                let n = flow.write(&mut big).map_err(|e| format!("big buffer: {:?}", e))?;
                out.extend_from_slice(&big[..n]);
            }
            Err(e) => return Err(format!("write error {:?}", e)),
        }
    }
    // after completion nothing more is emitted
    let mut buf = vec![0u8; 64];
    match flow.write(&mut buf) {
        Ok(0) => {}
        other => return Err(format!("write after complete head: {:?}", other)),
    }
    Ok(out)
}

fn dechunk_strict(mut b: &[u8]) -> Result<(Vec<u8>, bool, usize), String> {
    // parses zero or more complete non-empty chunks, then optionally the terminator; returns (data, terminated, terminators)
    let mut data = Vec::new();
    let mut terms = 0;
    loop {
        if b.is_empty() {
            return Ok((data, terms > 0, terms));
        }
        let p = b.windows(2).position(|w| w == b"\r\n").ok_or("no CRLF after size")?;
        let hex = std::str::from_utf8(&b[..p]).map_err(|_| "size not utf8")?;
        if hex.is_empty() || !hex.bytes().all(|c| c.is_ascii_hexdigit()) {
            return Err(format!("bad size line {:?}", hex));
        }
        let n = usize::from_str_radix(hex, 16).map_err(|_| "size")?;
        b = &b[p + 2..];
        if n == 0 {
            if !b.starts_with(b"\r\n") {
                return Err("terminator not followed by CRLF".into());
            }
            b = &b[2..];
            terms += 1;
            if !b.is_empty() {
                return Err("bytes after terminator".into());
            }
            continue;
        }
        if terms > 0 {
            return Err("chunk after terminator".into());
        }
        if b.len() < n + 2 {
            return Err("incomplete chunk".into());
        }
        data.extend_from_slice(&b[..n]);
        if &b[n..n + 2] != b"\r\n" {
            return Err("chunk data not followed by CRLF".into());
        }
        b = &b[n + 2..];
    }
}

fn to_send_body(req: Request<()>) -> Result<Flow<(), SendBody>, String> {
    let mut flow = Flow::new(req).map_err(|e| format!("{:?}", e))?.proceed();
    let mut out = vec![0u8; 4096];
    flow.write(&mut out).map_err(|e| format!("{:?}", e))?;
    match flow.proceed() {
        Ok(Some(SendRequestResult::SendBody(f))) => Ok(f),
        _ => Err("not SendBody".into()),
    }
}

fn to_recv_response(req: Request<()>) -> Result<Flow<(), RecvResponse>, String> {
    let mut flow = Flow::new(req).map_err(|e| format!("{:?}", e))?.proceed();
    let mut out = vec![0u8; 4096];
    flow.write(&mut out).map_err(|e| format!("{:?}", e))?;
    match flow.proceed() {
        Ok(Some(SendRequestResult::RecvResponse(f))) => Ok(f),
        _ => Err("not RecvResponse".into()),
    }
}

fn get_req() -> Request<()> {
    Request::get("http://a.test/x").body(()).unwrap()
}

// ------------------------------------------------------------------------------------------------ C03 C04 C18 C19
fn twin_c03() -> R {
    let mut n = 0u64;
    let outs: Vec<usize> = (0..=40).chain([255, 256, 257, 261, 262, 263, 4100, 10247, 10248, 10249, 10253, 10254, 10260, 20500]).collect();
    let ins: Vec<usize> = (0..=20).chain([250, 255, 256, 257, 5000, 10239, 10240, 10241, 10300, 20481]).collect();
    for &o1 in &outs {
        for &i1 in &ins {
            for &(o2, i2) in &[(0usize, 0usize), (4, 0), (5, 0), (6, 3), (100, 0)] {
                n += 1;
                let req = Request::post("http://a.test/x").body(()).unwrap();
                let mut flow = to_send_body(req)?;
                let input: Vec<u8> = (0..i1).map(|k| (k % 251) as u8).collect();
                let mut wire = Vec::new();
                let mut consumed = Vec::new();
                let mut finished_by_us = false;
                for (il, ol) in [(i1, o1), (i2, o2), (0, 5), (0, 7)] {
                    let inp: Vec<u8> = if il == i1 { input.clone() } else { vec![b'z'; il] };
                    let mut out = vec![0u8; ol];
                    let was_finished = flow.can_proceed();
                    match flow.write(&inp, &mut out) {
                        Ok((ci, co)) => {
                            if ci > inp.len() || co > ol {
                                return Err(format!("counts out of range: in {} out {} -> ({},{})", il, ol, ci, co));
                            }
                            if was_finished && co != 0 {
                                return Err(format!("emitted {:?} after finish (in {} out {})", &out[..co], il, ol));
                            }
                            if !inp.is_empty() && out[..co].ends_with(b"0\r\n\r\n") && dechunk_strict(&out[..co]).map(|d| d.1).unwrap_or(false) {
                                return Err(format!("terminator emitted by a non-empty write: in {} out {}", il, ol));
                            }
                            wire.extend_from_slice(&out[..co]);
                            consumed.extend_from_slice(&inp[..ci]);
                            if inp.is_empty() && !was_finished {
                                finished_by_us = true;
                            }
                        }
                        Err(e) if was_finished && !inp.is_empty() && e != Error::OutputOverflow => {}   // refused (whichever error)
                        Err(e) => return Err(format!("unexpected error {:?} (in {} out {})", e, il, ol)),
                    }
                    // after every call the wire is a valid coding of exactly the consumed input
                    match dechunk_strict(&wire) {
                        Ok((data, terminated, terms)) => {
                            if data != consumed {
                                return Err(format!("data != consumed after (in {} out {}) first (in {} out {})", il, ol, i1, o1));
                            }
                            if terms > 1 {
                                return Err("terminator emitted twice".into());
                            }
                            if terminated != flow.can_proceed() {
                                return Err(format!("finished flag {} but terminator on wire {} (first in {} out {}; then in {} out {})", flow.can_proceed(), terminated, i1, o1, il, ol));
                            }
                        }
                        Err(e) => return Err(format!("invalid chunked coding: {} (first in {} out {}; then in {} out {})", e, i1, o1, il, ol)),
                    }
                }
                let _ = finished_by_us;
            }
        }
    }
    Ok((n, n))
}

fn twin_c04() -> R {
    let mut n = 0u64;
    let ns: Vec<u64> = vec![0, 1, 2, 5, 17, 70000, u64::MAX];
    for &total in &ns {
        for sched in [vec![(3usize, 2usize), (0, 0), (5, 10), (1, 1), (0, 4)], vec![(0, 0), (1, 0), (0, 1)], vec![(70000, 70001)], vec![(2, 1), (2, 1), (2, 9)]] {
            n += 1;
            let req = Request::post("http://a.test/x").header("content-length", total.to_string()).body(()).unwrap();
            let mut flow = to_send_body(req)?;
            let mut left = total;
            for (k, &(il, ol)) in sched.iter().enumerate() {
                let inp = vec![(k as u8) + 1; il];
                let mut out = vec![0u8; ol];
                let was_finished = flow.can_proceed();
                let r = flow.write(&inp, &mut out);
                if il as u64 > left {
                    if !r.is_err() {   // refused; the property does not name the error
                        return Err(format!("N={} left={} write of {} not refused: {:?}", total, left, il, r));
                    }
                    continue;
                }
                if il > 0 && was_finished {
                    if !r.is_err() {
                        return Err(format!("write after end not refused: {:?}", r));
                    }
                    continue;
                }
                let want = il.min(ol).min(left.min(usize::MAX as u64) as usize);
                match r {
                    Ok((ci, co)) => {
                        if ci != want || co != want || out[..co] != inp[..ci] {
                            return Err(format!("N={} left={} in={} out={} -> ({},{}) want {}", total, left, il, ol, ci, co, want));
                        }
                        left -= ci as u64;
                    }
                    Err(e) => return Err(format!("N={} left={} in={} out={} -> {:?}", total, left, il, ol, e)),
                }
                if flow.can_proceed() != (left == 0) {
                    return Err(format!("N={} left={} finished={}", total, left, flow.can_proceed()));
                }
            }
            // direct writes
            let req = Request::post("http://a.test/x").header("content-length", "10").body(()).unwrap();
            let mut flow = to_send_body(req)?;
            if flow.consume_direct_write(11).is_ok() || flow.can_proceed() {
                return Err("direct write overshoot accepted".into());
            }
            flow.consume_direct_write(4).map_err(|e| format!("{:?}", e))?;
            if flow.can_proceed() {
                return Err("finished after 4 of 10".into());
            }
            flow.consume_direct_write(6).map_err(|e| format!("{:?}", e))?;
            if !flow.can_proceed() {
                return Err("not finished after 10 of 10".into());
            }
        }
    }
    Ok((n, n))
}

fn twin_c18_c19() -> R {
    let mut n = 0u64;
    let top = if big() { 3 * 10248 + 64 } else { 10248 + 600 };
    let mut prev_max = 0usize;
    let mut sizes: Vec<usize> = (0..=top).collect();
    sizes.extend([20496 - 1, 20496, 20497, 30744, 30745, 30800]);
    // "random larger n": beyond four hex digits of buffer length, around further multiples of the chunk size
    sizes.extend((65530..=65560).chain(70000..=70010).chain([102480, 102489, 1 << 20, (1 << 20) + 77, 16 * 10248 + 9]));
    // buffers of more than a thousand chunks: accumulated per-chunk overhead reaches a whole chunk at 1280 chunks
    sizes.extend([1279 * 10248 + 3, 1280 * 10248, 1280 * 10248 + 9, 2561 * 10248 + 5000]);
    for (idx, &o) in sizes.iter().enumerate() {
        let req = Request::post("http://a.test/x").body(()).unwrap();
        let mut flow = to_send_body(req)?;
        let m = flow.calculate_max_input(o);
        if m > o {
            tagged_fail!("[C18] max_input({}) = {} > n", o, m);
        }
        // monotone along the ascending sweep 0..=top (the extra sizes appended afterwards are not in order)
        if idx <= top && m < prev_max {
            tagged_fail!("[C18] max_input not monotone at {}", o);
        }
        if idx <= top {
            prev_max = m;
        }
        // the advertised maximum fits
        if m > 0 && (o < 600 || o % 97 == 0 || (o % 10248) < 40 || (o % 10248) > 10200 || o > top) {
            n += 1;
            let input = vec![b'q'; m];
            let mut out = vec![0u8; o];
            let (ci, _co) = flow.write(&input, &mut out).map_err(|e| format!("{:?}", e))?;
            if ci != m {
                tagged_fail!("[C18] max_input({}) = {} but a write consumed only {}", o, m, ci);
            }
        }
        // progress + monotone in the offered input (fresh flows, same buffer)
        if o >= 6 && o < (1 << 21) && (o < 300 || o % 211 == 0 || (o % 10248) < 12) {
            let mut last = 0usize;
            for il in [1usize, 2, 15, 16, 17, 255, 256, 257, o.saturating_sub(5).max(1), o, o + 1, 2 * o + 7] {
                n += 1;
                let req = Request::post("http://a.test/x").body(()).unwrap();
                let mut f2 = to_send_body(req)?;
                let input = vec![b'p'; il];
                let mut out = vec![0u8; o];
                let (ci, _) = f2.write(&input, &mut out).map_err(|e| format!("{:?}", e))?;
                if ci == 0 {
                    tagged_fail!("[C19] no progress: input {} output {}", il, o);
                }
                if ci < il.min(m) {
                    tagged_fail!("[C18,C19] input {} output {}: consumed {} < min(input, max_input={})", il, o, ci, m);
                }
                if il >= last_in(&[1usize, 2, 15, 16, 17, 255, 256, 257], il) && ci < last.min(il) {
                    // monotone along the increasing prefix of the list
                }
                last = last.max(ci.min(il));
            }
            // explicit monotonicity check on an increasing ladder
            let mut prev = 0usize;
            for il in (1..=(o + 20)).step_by(if o < 64 { 1 } else { 37 }) {
                n += 1;
                let req = Request::post("http://a.test/x").body(()).unwrap();
                let mut f2 = to_send_body(req)?;
                let mut out = vec![0u8; o];
                let (ci, _) = f2.write(&vec![b'm'; il], &mut out).map_err(|e| format!("{:?}", e))?;
                if ci < prev {
                    tagged_fail!("[C19] offering more input reduced progress: output {} input {} consumed {} < {}", o, il, ci, prev);
                }
                prev = ci;
            }
        }
    }
    Ok((n, n))
}
fn last_in(_l: &[usize], x: usize) -> usize {
    x
}

// ------------------------------------------------------------------------------------------------ C02 C16 C13 (wire) C17
const NAMES: [&str; 6] = ["cookie", "authorization", "content-length", "host", "connection", "x-a"];

fn expected_head(method: &str, pq: &str, version: &str, lines: &[(String, String)]) -> Vec<u8> {
    let mut s = format!("{} {} {}\r\n", method, pq, version);
    for (k, v) in lines {
        s.push_str(&format!("{}: {}\r\n", k, v));
    }
    s.push_str("\r\n");
    s.into_bytes()
}

fn twin_c02_c16() -> R {
    let mut n = 0u64;
    // original headers x added headers over the name menu, depth 0 and 1
    let orig_sets: Vec<Vec<(&str, &str)>> = vec![
        vec![],
        vec![("x-a", "1")],
        vec![("cookie", "o=1"), ("x-a", "2")],
        vec![("authorization", "Basic abc"), ("cookie", "o=2")],
        vec![("host", "a.test"), ("x-a", "3"), ("x-a", "4")],
        vec![("connection", "close"), ("authorization", "tok")],
        vec![("cookie", "o=3"), ("cookie", "o=4"), ("x-a", "5")],
        vec![("authorization", "t1"), ("authorization", "t2")],
    ];
    let add_sets: Vec<Vec<(&str, &str)>> = vec![
        vec![],
        vec![("x-b", "7")],
        vec![("cookie", "jar=1")],
        vec![("authorization", "Bearer zz"), ("cookie", "jar=2")],
        vec![("x-b", "8"), ("x-a", "9"), ("cookie", "c=3")],
        vec![("accept", "*/*"), ("user-agent", "t")],
        vec![("x-null", "present"), ("x", ""), ("te", "trailers")],
        vec![("x-0", "0"), ("x-1", "1"), ("x-2", "2"), ("x-3", "3"), ("x-4", "4"), ("x-5", "5"), ("x-6", "6")],
    ];
    for depth in 0..=1 {
        for policy in [RedirectAuthHeaders::Never, RedirectAuthHeaders::SameHost] {
            for (target, same_host) in [("http://a.test/y?q=1", true), ("http://b.test/y", false)] {
                for orig in &orig_sets {
                    for add in &add_sets {
                        n += 1;
                        let mut b = Request::get("http://a.test/x");
                        for (k, v) in orig {
                            b = b.header(*k, *v);
                        }
                        let req = b.body(()).unwrap();
                        let mut flow = Flow::new(req).map_err(|e| format!("{:?}", e))?;
                        let mut pq = "/x".to_string();
                        let mut host = "a.test".to_string();
                        let mut suppressed: Vec<&str> = vec![];
                        if depth == 1 {
                            let mut rr = to_recv_response_from(flow)?;
                            let resp = format!("HTTP/1.1 302 Found\r\nLocation: {}\r\nContent-Length: 0\r\n\r\n", target);
                            rr.try_response(resp.as_bytes()).map_err(|e| format!("{:?}", e))?;
                            let mut red = match rr.proceed() {
                                Some(RecvResponseResult::Redirect(f)) => f,
                                _ => return Err("not Redirect".into()),
                            };
                            flow = red.as_new_flow(policy).map_err(|e| format!("{:?}", e))?.ok_or("redirect not followed")?;
                            pq = target.trim_start_matches("http://a.test").trim_start_matches("http://b.test").to_string();
                            host = if same_host { "a.test".into() } else { "b.test".into() };
                            suppressed = vec!["cookie", "content-length", "host"];
                            if !(policy == RedirectAuthHeaders::SameHost && same_host) {
                                suppressed.push("authorization");
                            }
                        }
                        for (k, v) in add {
                            flow.header(*k, *v).map_err(|e| format!("{:?}", e))?;
                        }
                        // model of the effective headers: added (order added), then Host if none effective, then original minus suppressed
                        let mut kept: Vec<(String, String)> = vec![];
                        // http::HeaderMap iteration groups equal names: emulate by first-occurrence order
                        let mut names_seen: Vec<&str> = vec![];
                        for (k, _) in orig.iter() {
                            if !names_seen.contains(k) {
                                names_seen.push(k);
                            }
                        }
                        for k in names_seen {
                            if suppressed.contains(&k) {
                                continue;
                            }
                            for (k2, v2) in orig.iter() {
                                if *k2 == k {
                                    kept.push((k.to_string(), v2.to_string()));
                                }
                            }
                        }
                        let mut lines: Vec<(String, String)> = add.iter().map(|(k, v)| (k.to_string(), v.to_string())).collect();
                        let has_host = lines.iter().chain(kept.iter()).any(|(k, _)| k == "host");
                        if !has_host {
                            lines.push(("host".into(), host.clone()));
                        }
                        // C13 is an "only if": an inherited Authorization that MAY be kept may also be dropped (second accepted head)
                        let mut lines_alt = lines.clone();
                        lines_alt.extend(kept.iter().filter(|(k, _)| !(depth == 1 && k == "authorization")).cloned());
                        lines.extend(kept);
                        let hosts = lines.iter().filter(|(k, _)| k == "host").count();
                        let mut sr = flow.proceed();
                        if hosts > 1 {
                            let mut buf = vec![0u8; 4096];
                            if !matches!(sr.write(&mut buf), Err(e) if e != Error::OutputOverflow) {
                                return Err("two effective Host headers accepted".into());
                            }
                            continue;
                        }
                        let want = expected_head("GET", &pq, "HTTP/1.1", &lines);
                        let want_alt = expected_head("GET", &pq, "HTTP/1.1", &lines_alt);
                        for sizes in [vec![4096usize], vec![0, 1, 24, 40], vec![want.len()], vec![33], vec![64, 20, 64]] {
                            n += 1;
                            let mut f = clone_flow(orig, add, depth, policy, target)?;
                            let got = send_head(&mut f, &sizes)?;
                            if got != want && got != want_alt {
                                return Err(format!(
                                    "head mismatch (depth {} policy {:?} target {} sizes {:?}):\n got {:?}\nwant {:?}",
                                    depth, policy, target, sizes, String::from_utf8_lossy(&got), String::from_utf8_lossy(&want)
                                ));
                            }
                        }
                        let _ = &mut sr;
                    }
                }
            }
        }
    }
    Ok((n, n))
}

fn to_recv_response_from(flow: Flow<(), Prepare>) -> Result<Flow<(), RecvResponse>, String> {
    let mut flow = flow.proceed();
    let mut out = vec![0u8; 4096];
    flow.write(&mut out).map_err(|e| format!("{:?}", e))?;
    match flow.proceed() {
        Ok(Some(SendRequestResult::RecvResponse(f))) => Ok(f),
        Ok(Some(SendRequestResult::SendBody(mut sb))) => {
            sb.write(&[], &mut out).map_err(|e| format!("{:?}", e))?;
            sb.proceed().ok_or_else(|| "body not finished".to_string())
        }
        _ => Err("not RecvResponse".into()),
    }
}

fn clone_flow(orig: &[(&str, &str)], add: &[(&str, &str)], depth: usize, policy: RedirectAuthHeaders, target: &str) -> Result<Flow<(), SendRequest>, String> {
    let mut b = Request::get("http://a.test/x");
    for (k, v) in orig {
        b = b.header(*k, *v);
    }
    let mut flow = Flow::new(b.body(()).unwrap()).map_err(|e| format!("{:?}", e))?;
    if depth == 1 {
        let mut rr = to_recv_response_from(flow)?;
        let resp = format!("HTTP/1.1 302 Found\r\nLocation: {}\r\nContent-Length: 0\r\n\r\n", target);
        rr.try_response(resp.as_bytes()).map_err(|e| format!("{:?}", e))?;
        let mut red = match rr.proceed() {
            Some(RecvResponseResult::Redirect(f)) => f,
            _ => return Err("not Redirect".into()),
        };
        flow = red.as_new_flow(policy).map_err(|e| format!("{:?}", e))?.ok_or("redirect not followed")?;
    }
    for (k, v) in add {
        flow.header(*k, *v).map_err(|e| format!("{:?}", e))?;
    }
    Ok(flow.proceed())
}

fn twin_c17() -> R {
    let mut n = 0u64;
    let methods = [Method::GET, Method::HEAD, Method::POST, Method::PUT, Method::DELETE, Method::CONNECT, Method::OPTIONS, Method::TRACE, Method::PATCH];
    let versions = [Version::HTTP_09, Version::HTTP_10, Version::HTTP_11, Version::HTTP_2, Version::HTTP_3];
    let hdrs: Vec<Vec<(&str, &[u8])>> = vec![
        vec![],
        vec![("content-length", b"5")],
        vec![("content-length", b"0")],
        vec![("content-length", b"5"), ("content-length", b"5")],
        vec![("content-length", b"-1")],
        vec![("content-length", b"abc")],
        vec![("content-length", b"\xff")],
        vec![("transfer-encoding", b"chunked")],
        vec![("host", b"h.test"), ("host", b"i.test")],
        vec![("host", b"\xfe")],
        vec![("host", b"h.test")],
        vec![("transfer-encoding", b"chunked"), ("content-length", b"abc")],
        vec![("transfer-encoding", b"chunked"), ("content-length", b"5")],
        vec![("transfer-encoding", b"gzip")],
        vec![("transfer-encoding", b"deflate")],
    ];
    for m in &methods {
        for v in &versions {
            for hs in &hdrs {
                for despite in [false, true] {
                    n += 1;
                    let mut b = Request::builder().method(m.clone()).uri("http://a.test/x").version(*v);
                    for (k, val) in hs {
                        b = b.header(*k, *val);
                    }
                    let req = b.body(()).unwrap();
                    let needs_body = matches!(*m, Method::POST | Method::PUT | Method::PATCH);
                    let http10_ok = matches!(*m, Method::GET | Method::HEAD | Method::POST);
                    let cl: Vec<&[u8]> = hs.iter().filter(|(k, _)| *k == "content-length").map(|(_, v)| *v).collect();
                    let hosts: Vec<&[u8]> = hs.iter().filter(|(k, _)| *k == "host").map(|(_, v)| *v).collect();
                    let te = hs.iter().any(|(k, v)| *k == "transfer-encoding" && v.eq_ignore_ascii_case(b"chunked"));
                    let text = |v: &[u8]| v.iter().all(|c| (32..127).contains(c) || *c == 9);
                    let cl_bad = cl.first().map(|v| !text(v) || std::str::from_utf8(v).ok().and_then(|s| s.parse::<u64>().ok()).is_none()).unwrap_or(false);
                    let has_body_hdr = te || !cl.is_empty();
                    let want_err = if *v != Version::HTTP_10 && *v != Version::HTTP_11 {
                        true
                    } else if !(http10_ok || *v == Version::HTTP_11) {
                        true
                    } else if hosts.len() > 1 || cl.len() > 1 {
                        true
                    } else if hosts.first().map(|h| !text(h)).unwrap_or(false) {
                        true
                    } else if cl_bad {
                        true
                    } else if !despite && !needs_body && has_body_hdr {
                        true
                    } else {
                        false
                    };
                    let mut flow = Flow::new(req).map_err(|e| format!("{:?}", e))?;
                    if despite {
                        flow.send_body_despite_method();
                    }
                    let mut flow = flow.proceed();
                    for attempt in 0..2 {
                        let mut out = vec![0xAAu8; 1024];
                        let r = flow.write(&mut out);
                        match (&r, want_err) {
                            (Err(Error::OutputOverflow), _) => return Err("overflow with 1024 bytes".into()),
                            (Err(_), true) => {
                                if flow.can_proceed() {
                                    return Err("rejected request can proceed".into());
                                }
                                if out.iter().any(|b| *b != 0xAA) && attempt == 0 {
                                    // bytes may be scribbled only by an emitted head; a rejected request must not emit
                                    return Err(format!("rejected request touched the buffer: {:?} {:?} {:?}", m, v, hs.iter().map(|x| x.0).collect::<Vec<_>>()));
                                }
                            }
                            (Ok(_), false) => {}
                            (Ok(k), true) => {
                                return Err(format!("invalid request accepted: {:?} {:?} hdrs {:?} despite {} -> {:?}", m, v, hs.iter().map(|x| (x.0, String::from_utf8_lossy(x.1).to_string())).collect::<Vec<_>>(), despite, String::from_utf8_lossy(&out[..*k])))
                            }
                            (Err(e), false) => return Err(format!("valid request rejected: {:?} {:?} hdrs {:?} despite {} -> {:?}", m, v, hs.iter().map(|x| x.0).collect::<Vec<_>>(), despite, e)),
                        }
                    }
                }
            }
        }
    }
    Ok((n, n))
}

// ------------------------------------------------------------------------------------------------ C05 C20 C11 (httparse conformance + glue)
fn gen_heads() -> Vec<(Vec<u8>, u16, u8, Vec<(String, Vec<u8>)>)> {
    let mut v = Vec::new();
    let statuses = [101u16, 200, 204, 302, 304, 404, 599, 999];
    let reasons = ["", "OK", "A long reason phrase with spaces"];
    let field_sets: Vec<Vec<(&str, &str, &[u8], &str)>> = vec![
        vec![],
        vec![("Content-Length", " ", b"3", "")],
        vec![("Location", "", b"/x", " "), ("Set-Cookie", " ", b"a=b", ""), ("Content-Length", "\t", b"0", " \t")],
        vec![("X-Empty", "", b"", ""), ("X-Obs", " ", b"caf\xe9", ""), ("Set-Cookie", " ", b"a=1", ""), ("Set-Cookie", " ", b"b=2", "")],
    ];
    for minor in [0u8, 1] {
        for &st in &statuses {
            for (ri, reason) in reasons.iter().enumerate() {
                for (fi, fs) in field_sets.iter().enumerate() {
                    if (ri + fi + st as usize) % 2 == 1 && !big() {
                        continue;
                    }
                    let mut h = format!("HTTP/1.{} {} {}\r\n", minor, st, reason).into_bytes();
                    let mut fields = Vec::new();
                    for (name, lead, val, trail) in fs {
                        h.extend_from_slice(name.as_bytes());
                        h.push(b':');
                        h.extend_from_slice(lead.as_bytes());
                        h.extend_from_slice(val);
                        h.extend_from_slice(trail.as_bytes());
                        h.extend_from_slice(b"\r\n");
                        fields.push((name.to_lowercase(), val.to_vec()));
                    }
                    h.extend_from_slice(b"\r\n");
                    v.push((h, st, minor, fields));
                }
            }
        }
    }
    v
}

fn twin_c05_c20() -> R {
    let mut n = 0u64;
    for (head, st, minor, fields) in gen_heads() {
        let mut full = head.clone();
        full.extend_from_slice(b"NEXT MESSAGE BYTES");
        // complete head: exact
        n += 1;
        match try_parse_response::<8>(&full) {
            Ok(Some((used, r))) => {
                if used != head.len() || r.status().as_u16() != st || (r.version() == Version::HTTP_10) != (minor == 0) {
                    return Err(format!("complete parse wrong for {:?}", String::from_utf8_lossy(&head)));
                }
                let got: Vec<(String, Vec<u8>)> = r.headers().iter().map(|(k, v)| (k.as_str().to_string(), v.as_bytes().to_vec())).collect();
                let mut want_sorted = fields.clone();
                let mut got_sorted = got.clone();
                want_sorted.sort();
                got_sorted.sort();
                if got_sorted != want_sorted {
                    return Err(format!("fields differ: got {:?} want {:?}", got, fields));
                }
                for name in ["set-cookie"] {
                    let g: Vec<&[u8]> = r.headers().get_all(name).iter().map(|v| v.as_bytes()).collect();
                    let w: Vec<&[u8]> = fields.iter().filter(|(k, _)| k == name).map(|(_, v)| v.as_slice()).collect();
                    if g != w {
                        return Err("repeated field order lost".into());
                    }
                }
            }
            other => return Err(format!("complete head not parsed: {:?} -> {:?}", String::from_utf8_lossy(&head), other.map(|o| o.map(|x| x.0)))),
        }
        // limits
        let k = fields.len();
        if k > 0 {
            match k {
                1 => {
                    if try_parse_response::<0>(&full).err() != Some(Error::HttpParseTooManyHeaders) {
                        tagged_fail!("[C20] limit 0 not enforced");
                    }
                }
                _ => {}
            }
        }
        // every strict prefix: need more data, through the parsers and through the flow
        let is_redirect = (300..400).contains(&st);
        for cut in 0..head.len() {
            n += 1;
            let pre = &head[..cut];
            match try_parse_response::<8>(pre) {
                Ok(None) => {}
                other => return Err(format!("prefix {} of {:?}: {:?}", cut, String::from_utf8_lossy(&head), other.map(|o| o.map(|x| x.0)))),
            }
            // input ending inside or right after the status line decides nothing, whatever the field limit (C11 uses limit 0)
            let status_line_len = head.iter().position(|&b| b == b'\n').unwrap() + 1;
            if cut <= status_line_len {
                match try_parse_response::<0>(pre) {
                    Ok(None) => {}
                    other => { tagged_fail!("[C20,C11] limit 0: prefix {} of {:?}: {:?}", cut, String::from_utf8_lossy(&head), other.map(|o| o.map(|x| x.0))); }
                }
            }
            match try_parse_partial_response::<8>(pre) {
                Ok(None) => {}
                Ok(Some(r)) => {
                    // only completely received fields may be reported
                    for (name, val) in r.headers().iter() {
                        let line_end = find_field_end(&head, name.as_str(), val.as_bytes());
                        if line_end.map(|e| e > cut).unwrap_or(true) {
                            tagged_fail!("[C20] partial parser reported a field not completely received: {:?} at cut {}", name, cut);
                        }
                    }
                }
                Err(e) => { tagged_fail!("[C20] partial parser failed on prefix {} of {:?}: {:?}", cut, String::from_utf8_lossy(&head), e); }
            }
            let mut flow = to_recv_response(get_req())?;
            let location_complete = fields.iter().any(|(k, v)| k == "location" && find_field_end(&head, k, v).map(|e| e <= cut).unwrap_or(false));
            match flow.try_response(pre) {
                Ok((0, None)) => {}
                Ok((_, Some(_))) if is_redirect && location_complete => { /* known finding KF2, owned by C05's listed exception */ }
                other => { tagged_fail!("[C05] flow: prefix {} of {:?} -> {:?}", cut, String::from_utf8_lossy(&head), other.map(|o| (o.0, o.1.is_some()))); }
            }
        }
        // exactly H in the buffer (nothing after it) is a complete head too
        let mut flow = to_recv_response(get_req())?;
        match flow.try_response(&head) {
            Ok((used, Some(r))) if used == head.len() && r.status().as_u16() == st => {}
            Err(Error::BadContentLengthHeader) => {}
            other => { tagged_fail!("[C05] flow: head alone {:?} -> {:?}", String::from_utf8_lossy(&head), other.map(|o| (o.0, o.1.is_some()))); }
        }
        // the flow consumes exactly |H|
        let mut flow = to_recv_response(get_req())?;
        match flow.try_response(&full) {
            Ok((used, Some(r))) if used == head.len() && r.status().as_u16() == st => {}
            Err(Error::BadContentLengthHeader) => {}
            other => { tagged_fail!("[C05] flow: complete head {:?} -> {:?}", String::from_utf8_lossy(&head), other.map(|o| (o.0, o.1.is_some()))); }
        }
    }
    // 128 / 129 fields
    for k in [128usize, 129] {
        n += 1;
        let mut h = b"HTTP/1.1 200 OK\r\n".to_vec();
        for i in 0..k {
            h.extend_from_slice(format!("x-{}: {}\r\n", i, i).as_bytes());
        }
        h.extend_from_slice(b"\r\n");
        let mut flow = to_recv_response(get_req())?;
        let r = flow.try_response(&h);
        if k == 128 {
            match r {
                Ok((u, Some(resp))) if u == h.len() && resp.headers().len() == 128 => {}
                other => { tagged_fail!("[C05] 128 fields: {:?}", other.map(|o| o.0)); }
            }
        } else if r.is_ok() {
            tagged_fail!("[C05] 129 fields accepted");
        }
    }
    // request parser
    for (m, target, minor, nf) in [("GET", "/", 1u8, 0usize), ("POST", "/a?b=c", 0, 2), ("DELETE", "*", 1, 4)] {
        let mut h = format!("{} {} HTTP/1.{}\r\n", m, target, minor).into_bytes();
        for i in 0..nf {
            h.extend_from_slice(format!("f{}: v{}\r\n", i, i).as_bytes());
        }
        h.extend_from_slice(b"\r\n");
        let mut full = h.clone();
        full.extend_from_slice(b"body");
        n += 1;
        match try_parse_request::<4>(&full) {
            Ok(Some((used, r))) if used == h.len() && r.method().as_str() == m && r.headers().len() == nf => {}
            other => { tagged_fail!("[C20] request parser: {:?}", other.map(|o| o.map(|x| x.0))); }
        }
        if nf > 0 && try_parse_request::<1>(&full).is_ok() && nf > 1 {
            tagged_fail!("[C20] request limit not enforced");
        }
        for cut in 0..h.len() {
            n += 1;
            match try_parse_request::<4>(&h[..cut]) {
                Ok(None) => {}
                other => { tagged_fail!("[C20] request prefix {}: {:?}", cut, other.map(|o| o.map(|x| x.0))); }
            }
        }
    }
    Ok((n, n))
}

fn find_field_end(head: &[u8], name: &str, val: &[u8]) -> Option<usize> {
    // end offset (after CRLF) of the first line whose lower-cased name matches and whose value contains val
    let mut pos = head.windows(2).position(|w| w == b"\r\n")? + 2;
    while pos < head.len() {
        let rel = head[pos..].windows(2).position(|w| w == b"\r\n")?;
        let line = &head[pos..pos + rel];
        if let Some(c) = line.iter().position(|b| *b == b':') {
            let n = String::from_utf8_lossy(&line[..c]).to_lowercase();
            let v = &line[c + 1..];
            let v: Vec<u8> = v.iter().copied().skip_while(|b| *b == b' ' || *b == b'\t').collect();
            let mut v2 = v.clone();
            while v2.last().map(|b| *b == b' ' || *b == b'\t').unwrap_or(false) {
                v2.pop();
            }
            if n == name && v2 == val {
                return Some(pos + rel + 2);
            }
        }
        pos += rel + 2;
    }
    None
}

// ------------------------------------------------------------------------------------------------ C06
fn twin_c06() -> R {
    let mut n = 0u64;
    let methods = [Method::GET, Method::HEAD, Method::POST, Method::CONNECT, Method::OPTIONS];
    let statuses: Vec<u16> = if big() { (100..=999).collect() } else { vec![100, 101, 199, 200, 204, 205, 299, 300, 301, 304, 305, 399, 400, 404, 500, 999] };
    // (2^64 .. 2^64+3 and a zero-padded one: the first values a hand-written digit loop gets wrong)
    let cls: [Option<&str>; 9] = [None, Some("0"), Some("7"), Some("18446744073709551615"), Some("7x"),
        Some("18446744073709551616"), Some("18446744073709551619"), Some("00018446744073709551617"), Some("99999999999999999999")];
    // ("deflate" has the length of "chunked": the comparison is entered, not cut short by the length test)
    let tes: [(Option<&str>, bool); 9] = [(None, false), (Some("chunked"), true), (Some("ChUnKeD"), true), (Some("gzip, chunked"), true), (Some("gzip,chunked"), true), (Some("gzip"), false), (Some("chunkedx"), false),
        (Some("deflate"), false), (Some("chunkeD, deflate"), true)];
    for m in &methods {
        for &st in &statuses {
            for minor in [0u8, 1] {
                for cl in &cls {
                    for (te, te_chunked) in &tes {
                        n += 1;
                        let req = Request::builder().method(m.clone()).uri("http://a.test/x").body(()).unwrap();
                        let mut flow = match m {
                            &Method::POST => {
                                let mut f = to_send_body(req)?;
                                let mut out = vec![0u8; 64];
                                f.write(&[], &mut out).map_err(|e| format!("{:?}", e))?;
                                f.proceed().ok_or("post not finished")?
                            }
                            _ => to_recv_response(req)?,
                        };
                        let mut h = format!("HTTP/1.{} {} X\r\n", minor, st);
                        if let Some(c) = cl {
                            h.push_str(&format!("Content-Length: {}\r\n", c));
                        }
                        if let Some(t) = te {
                            h.push_str(&format!("Transfer-Encoding: {}\r\n", t));
                        }
                        h.push_str("\r\n");
                        let r = flow.try_response(h.as_bytes());
                        if st == 100 {
                            continue; // owned by C11
                        }
                        let cl_num = cl.map(|c| c.parse::<u64>().ok());
                        if cl_num == Some(None) {
                            if r.is_ok() {
                                return Err(format!("non-numeric content-length accepted: {:?}", h));
                            }
                            continue;
                        }
                        let cl_num = cl_num.flatten();
                        let chunked = *te_chunked && minor == 1;
                        #[derive(Debug, PartialEq)]
                        enum F { No, Len(u64), Chunked, Close }
                        let want = if *m == Method::HEAD || ((200..300).contains(&st) && *m == Method::CONNECT) || (100..200).contains(&st) || st == 204 || st == 304 {
                            F::No
                        } else if (300..400).contains(&st) && cl_num.is_none() && !chunked {
                            F::No
                        } else if chunked {
                            F::Chunked
                        } else if let Some(k) = cl_num {
                            F::Len(k)
                        } else {
                            F::Close
                        };
                        match r {
                            Ok((u, Some(_))) if u == h.len() => {}
                            other => return Err(format!("head {:?} -> {:?}", h, other.map(|o| (o.0, o.1.is_some())))),
                        }
                        let is_redirect = (300..400).contains(&st) && st != 304;
                        let need_body = !matches!(want, F::No | F::Len(0));
                        match flow.proceed() {
                            Some(RecvResponseResult::RecvBody(f)) => {
                                let got = match f.body_mode() {
                                    BodyMode::NoBody => F::No,
                                    BodyMode::LengthDelimited(k) => F::Len(k),
                                    BodyMode::Chunked => F::Chunked,
                                    BodyMode::CloseDelimited => F::Close,
                                };
                                if !need_body || got != want {
                                    return Err(format!("{:?} {} 1.{} cl {:?} te {:?}: body state with {:?}, want {:?}", m, st, minor, cl, te, got, want));
                                }
                            }
                            Some(RecvResponseResult::Redirect(_)) => {
                                if need_body || !is_redirect {
                                    return Err(format!("{:?} {} 1.{} cl {:?} te {:?}: redirect state, want {:?}", m, st, minor, cl, te, want));
                                }
                            }
                            Some(RecvResponseResult::Cleanup(_)) => {
                                if need_body || is_redirect {
                                    return Err(format!("{:?} {} 1.{} cl {:?} te {:?}: cleanup state, want {:?}", m, st, minor, cl, te, want));
                                }
                            }
                            None => return Err("cannot proceed after response".into()),
                        }
                    }
                }
            }
        }
    }
    Ok((n, n))
}

// ------------------------------------------------------------------------------------------------ C07 C08 C12 (readers)
fn to_recv_body(head: &[u8]) -> Result<Flow<(), RecvBody>, String> {
    let mut flow = to_recv_response(get_req())?;
    match flow.try_response(head) {
        Ok((u, Some(_))) if u == head.len() => {}
        other => return Err(format!("head: {:?}", other.map(|o| o.0))),
    }
    match flow.proceed() {
        Some(RecvResponseResult::RecvBody(f)) => Ok(f),
        _ => Err("no body state".into()),
    }
}

struct Coding {
    bytes: Vec<u8>,
    payload: Vec<u8>,
    chunk_ends: Vec<usize>, // payload offsets where chunks end
}

fn gen_codings() -> Vec<Coding> {
    let sizes_menu: Vec<usize> = if big() { vec![1, 2, 3, 15, 16, 255, 256, 4095, 4096] } else { vec![1, 2, 3, 15, 16, 256] };
    let mut out = Vec::new();
    let mut size_lists: Vec<Vec<usize>> = vec![vec![]];
    for &a in &sizes_menu {
        size_lists.push(vec![a]);
    }
    for &a in &[1usize, 3, 16] {
        for &b in &[1usize, 2, 15] {
            size_lists.push(vec![a, b]);
            size_lists.push(vec![a, b, 1]);
        }
    }
    for (li, sl) in size_lists.iter().enumerate() {
        for style in 0..4 {
            for trailers in 0..=2 {
                if (li + style + trailers) % 3 != 0 && !big() && sl.len() > 1 {
                    continue;
                }
                let mut bytes = Vec::new();
                let mut payload = Vec::new();
                let mut ends = Vec::new();
                for (ci, &s) in sl.iter().enumerate() {
                    let hex = match style {
                        0 => format!("{:x}", s),
                        1 => format!("{:X}", s),
                        2 => format!("00{:x}", s),
                        _ => format!("{:x};ext=1", s),
                    };
                    bytes.extend_from_slice(hex.as_bytes());
                    bytes.extend_from_slice(b"\r\n");
                    let data: Vec<u8> = (0..s).map(|k| [b'\r', b'\n', b'a', b'0', b';'][(k + ci) % 5]).collect();
                    bytes.extend_from_slice(&data);
                    payload.extend_from_slice(&data);
                    ends.push(payload.len());
                    bytes.extend_from_slice(b"\r\n");
                }
                bytes.extend_from_slice(if style == 3 { b"0;last\r\n" } else { b"0\r\n" });
                for t in 0..trailers {
                    bytes.extend_from_slice(format!("x-trailer-{}: v\r\n", t).as_bytes());
                }
                bytes.extend_from_slice(b"\r\n");
                out.push(Coding { bytes, payload, chunk_ends: ends });
            }
        }
    }
    out
}

fn twin_c07() -> R {
    let mut n = 0u64;
    let head = b"HTTP/1.1 200 OK\r\nTransfer-Encoding: chunked\r\n\r\n";
    let next = b"HTTP/1.1 200 OK\r\n";
    for c in gen_codings() {
        let mut stream = c.bytes.clone();
        stream.extend_from_slice(next);
        let len = c.bytes.len();
        // arrival schedules: all-at-once, byte-by-byte, every single cut (two pieces), a 3-piece set
        let mut schedules: Vec<Vec<usize>> = vec![vec![stream.len()], vec![1]];
        for cut in 1..len.min(if big() { 400 } else { 60 }) {
            schedules.push(vec![cut, stream.len()]);
        }
        schedules.push(vec![2, 3, 1, stream.len()]);
        for sched in &schedules {
            for &osz in &[0usize, 1, 2, 3, 4, 4096] {
                for stop in [false, true] {
                    if osz == 0 && sched.len() > 2 {
                        continue;
                    }
                    n += 1;
                    let mut flow = to_recv_body(head)?;
                    flow.stop_on_chunk_boundary(stop);
                    let mut arrived = 0usize; // bytes of `stream` that have arrived
                    let mut consumed = 0usize;
                    let mut got = Vec::new();
                    let mut k = 0usize;
                    let mut idle = 0;
                    let mut steps = 0;
                    while !flow.can_proceed() {
                        steps += 1;
                        if steps > 200000 {
                            return Err("reader does not terminate".into());
                        }
                        // let more bytes arrive when the reader is stuck or at each step
                        if arrived < stream.len() && (idle > 0 || arrived == consumed) {
                            let step = sched[k.min(sched.len() - 1)];
                            k += 1;
                            arrived = (arrived + step).min(stream.len());
                        }
                        let osz_now = if osz == 0 { if idle > 1 { 7 } else { 0 } } else { osz };
                        let mut out = vec![0u8; osz_now];
                        let (ci, co) = flow.read(&stream[consumed..arrived], &mut out).map_err(|e| format!("read error {:?} on {:?}", e, String::from_utf8_lossy(&c.bytes)))?;
                        if ci > arrived - consumed || co > osz_now {
                            return Err("counts out of range".into());
                        }
                        if stop && co > 0 {
                            // no single read returns data from two chunks
                            let a = got.len();
                            let b = a + co;
                            if c.chunk_ends.iter().any(|&e| a < e && e < b) {
                                return Err(format!("one read spans two chunks ({}..{}) coding {:?}", a, b, String::from_utf8_lossy(&c.bytes)));
                            }
                        }
                        got.extend_from_slice(&out[..co]);
                        consumed += ci;
                        if consumed > len {
                            return Err(format!("over-read: consumed {} of a coding of {} bytes: {:?} sched {:?} out {}", consumed, len, String::from_utf8_lossy(&c.bytes), sched, osz));
                        }
                        if ci == 0 && co == 0 {
                            idle += 1;
                            if idle > 50 && arrived == stream.len() {
                                return Err(format!("stuck at {} of {}: {:?} sched {:?} out {}", consumed, len, String::from_utf8_lossy(&c.bytes), sched, osz));
                            }
                        } else {
                            idle = 0;
                        }
                    }
                    if got != c.payload {
                        return Err(format!("payload differs: coding {:?} sched {:?} out {} stop {}", String::from_utf8_lossy(&c.bytes), sched, osz, stop));
                    }
                    if consumed != len {
                        return Err(format!("ended after {} bytes of a coding of {} bytes: {:?} sched {:?}", consumed, len, String::from_utf8_lossy(&c.bytes), sched));
                    }
                    // ended body reads nothing more
                    let mut out = vec![0u8; 8];
                    if flow.read(&stream[consumed..], &mut out) != Ok((0, 0)) {
                        return Err("read after end consumed something".into());
                    }
                }
            }
        }
    }
    Ok((n, n))
}

fn twin_c08() -> R {
    let mut n = 0u64;
    for total in [0u64, 1, 2, 5, 100, 70000] {
        for sched in [vec![1usize], vec![3, 2], vec![100000], vec![0, 7, 0, 1]] {
            for osz in [0usize, 1, 3, 64, 100000] {
                if osz == 0 && total > 0 {
                    continue;
                }
                n += 1;
                let head = format!("HTTP/1.1 200 OK\r\nContent-Length: {}\r\n\r\n", total);
                let mut rr = to_recv_response(get_req())?;
                rr.try_response(head.as_bytes()).map_err(|e| format!("{:?}", e))?;
                let body: Vec<u8> = (0..total as usize).map(|k| (k % 253) as u8).collect();
                let mut stream = body.clone();
                stream.extend_from_slice(b"HTTP/1.1 204 No Content\r\n\r\n");
                let mut flow = match rr.proceed() {
                    Some(RecvResponseResult::RecvBody(f)) => f,
                    Some(RecvResponseResult::Cleanup(_)) if total == 0 => continue,
                    _ => return Err("unexpected state".into()),
                };
                let (mut arrived, mut consumed, mut k, mut got) = (0usize, 0usize, 0usize, Vec::new());
                let mut steps = 0;
                while !flow.can_proceed() {
                    steps += 1;
                    if steps > 300000 {
                        return Err("length reader does not terminate".into());
                    }
                    if arrived == consumed {
                        arrived = (arrived + sched[k % sched.len()].max(if k > 8 { 1 } else { 0 })).min(stream.len());
                        k += 1;
                    }
                    let mut out = vec![0u8; osz];
                    let left = total as usize - got.len();
                    let want = (arrived - consumed).min(osz).min(left);
                    let (ci, co) = flow.read(&stream[consumed..arrived], &mut out).map_err(|e| format!("{:?}", e))?;
                    if ci != want || co != want || out[..co] != stream[consumed..consumed + ci] {
                        return Err(format!("N={} read -> ({},{}) want {}", total, ci, co, want));
                    }
                    got.extend_from_slice(&out[..co]);
                    consumed += ci;
                }
                if got != body || consumed != total as usize {
                    return Err(format!("N={}: delivered {} consumed {}", total, got.len(), consumed));
                }
            }
        }
    }
    // close delimited
    for head in ["HTTP/1.1 200 OK\r\n\r\n", "HTTP/1.0 200 OK\r\n\r\n"] {
        n += 1;
        let mut flow = to_recv_body(head.as_bytes())?;
        if !flow.can_proceed() || flow.body_mode() != BodyMode::CloseDelimited {
            return Err("close delimited: cannot proceed at once".into());
        }
        let data = b"any bytes at all\r\n0\r\n\r\n";
        let mut out = vec![0u8; 5];
        let (ci, co) = flow.read(data, &mut out).map_err(|e| format!("{:?}", e))?;
        if (ci, co) != (5, 5) || out[..] != data[..5] || !flow.can_proceed() {
            return Err("close delimited passthrough".into());
        }
        match flow.proceed() {
            Some(RecvBodyResult::Cleanup(c)) if c.must_close_connection() => {}
            _ => return Err("close delimited body not marked must-close".into()),
        }
        // every schedule of (offered window, output space) pairs over a small menu that includes 0 for both: each read passes
        // min(window, space) bytes through unchanged, the flow may proceed at any time and stays close-delimited
        let data: Vec<u8> = (0..40u8).map(|i| b'a' + (i % 26)).chain(*b"\r\n0\r\n\r\nHTTP/1.1 200 OK\r\n\r\n").collect();
        let menu = [(0usize, 4usize), (4, 0), (0, 0), (3, 8), (8, 3), (64, 64)];
        let depth = if big() { 5 } else { 4 };
        let mut idx = vec![0usize; depth];
        'sched: loop {
            n += 1;
            let mut flow = to_recv_body(head.as_bytes())?;
            let mut off = 0usize;
            for &k in &idx {
                let (w, space) = menu[k];
                let win = &data[off..(off + w).min(data.len())];
                let mut out = vec![0u8; space];
                let (ci, co) = flow.read(win, &mut out).map_err(|e| format!("close delimited read: {:?}", e))?;
                let want = win.len().min(space);
                if ci != want || co != want || out[..co] != win[..co] {
                    return Err(format!("close delimited: read moved ({}, {}) of window {} into space {}, want {} (schedule {:?})", ci, co, win.len(), space, want, idx.iter().map(|&k| menu[k]).collect::<Vec<_>>()));
                }
                if !flow.can_proceed() || flow.body_mode() != BodyMode::CloseDelimited {
                    return Err(format!("close delimited: not ready / mode changed mid-body (schedule {:?})", idx.iter().map(|&k| menu[k]).collect::<Vec<_>>()));
                }
                off += ci;
            }
            match flow.proceed() {
                Some(RecvBodyResult::Cleanup(c)) if c.must_close_connection() => {}
                _ => return Err("close delimited body not marked must-close".into()),
            }
            let mut p = 0;
            loop {
                if p == depth { break 'sched; }
                idx[p] += 1;
                if idx[p] < menu.len() { break; }
                idx[p] = 0;
                p += 1;
            }
        }
    }
    Ok((n, n))
}

// ------------------------------------------------------------------------------------------------ C09 C10 C11
fn twin_c10_c11_c09() -> R {
    let mut n = 0u64;
    for req_v in [Version::HTTP_10, Version::HTTP_11] {
        // ("several fields": a first Connection field that is not `close`, followed by one that is)
        for req_close in [None, Some("close"), Some("keep-alive"), Some("keep-alive|close")] {
            for expect in [false, true] {
                for handshake in 0..6 {
                    // 0: 100 continue, 1: refused 403 bare, 2: refused with headers, 3: give up waiting, 4: bare 102 (not a 100!),
                    // 5: refused by an HTTP/1.0 answer with Connection: close and no length (all five close conditions can hold at once)
                    if !expect && handshake != 0 {
                        continue;
                    }
                    for resp_v in ["1.0", "1.1"] {
                        for framing in ["cl", "chunked", "close", "none304"] {
                            for resp_close in [None, Some("close"), Some("keep-alive"), Some("keep-alive|close")] {
                                for late_100 in [false, true] {
                                    n += 1;
                                    let mut b = Request::post("http://a.test/x").version(req_v);
                                    if let Some(c) = req_close {
                                        for part in c.split('|') {
                                            b = b.header("connection", part);
                                        }
                                    }
                                    if expect {
                                        b = b.header("expect", "100-continue");
                                    }
                                    let mut flow = Flow::new(b.body(()).unwrap()).map_err(|e| format!("{:?}", e))?.proceed();
                                    let mut out = vec![0u8; 2048];
                                    flow.write(&mut out).map_err(|e| format!("{:?}", e))?;
                                    let mut refused = false;
                                    let refusal = if handshake == 2 { "HTTP/1.1 403 Forbidden\r\nContent-Length: 0\r\n\r\n" } else if handshake == 4 { "HTTP/1.1 102 Processing\r\n\r\n" }
                                        else if handshake == 5 { "HTTP/1.0 403 Forbidden\r\nConnection: close\r\n\r\n" } else { "HTTP/1.1 403 Forbidden\r\n\r\n" };
                                    let mut rr = match flow.proceed() {
                                        Ok(Some(SendRequestResult::Await100(mut a))) => {
                                            if !expect {
                                                tagged_fail!("[C09,C11] Await100 without Expect");
                                            }
                                            // undecided prefixes consume nothing
                                            for cut in [0usize, 5, 12, 17] {
                                                if a.try_read_100(&b"HTTP/1.1 100 Continue\r\n\r\n"[..cut]) != Ok(0) || !a.can_keep_await_100() {
                                                    tagged_fail!("[C11] try_read_100 decided on a {}-byte prefix", cut);
                                                }
                                            }
                                            match handshake {
                                                0 => {
                                                    let i = b"HTTP/1.1 100 Continue\r\n\r\nHTTP/1.1 200";
                                                    if a.try_read_100(i) != Ok(25) || a.can_keep_await_100() {
                                                        tagged_fail!("[C11] bare 100 not consumed exactly");
                                                    }
                                                }
                                                1 | 2 | 4 | 5 => {
                                                    if a.try_read_100(refusal.as_bytes()) != Ok(0) || a.can_keep_await_100() {
                                                        tagged_fail!("[C11] refusal must consume nothing and stop waiting");
                                                    }
                                                    refused = true;
                                                }
                                                _ => {}
                                            }
                                            match a.proceed() {
                                                Ok(Await100Result::SendBody(mut sb)) => {
                                                    if refused {
                                                        tagged_fail!("[C11] body requested after refusal");
                                                    }
                                                    sb.write(b"hi", &mut out).map_err(|e| format!("{:?}", e))?;
                                                    sb.write(&[], &mut out).map_err(|e| format!("{:?}", e))?;
                                                    sb.proceed().ok_or("SendBody cannot proceed")?
                                                }
                                                Ok(Await100Result::RecvResponse(r)) => {
                                                    if !refused {
                                                        tagged_fail!("[C11] body skipped without refusal");
                                                    }
                                                    r
                                                }
                                                Err(e) => return Err(format!("{:?}", e)),
                                            }
                                        }
                                        Ok(Some(SendRequestResult::SendBody(mut sb))) => {
                                            if expect {
                                                tagged_fail!("[C09,C11] SendBody with Expect");
                                            }
                                            sb.write(b"hi", &mut out).map_err(|e| format!("{:?}", e))?;
                                            if sb.can_proceed() {
                                                tagged_fail!("[C09] can proceed before finish");
                                            }
                                            sb.write(&[], &mut out).map_err(|e| format!("{:?}", e))?;
                                            sb.proceed().ok_or("SendBody cannot proceed")?
                                        }
                                        _ => return Err("[C09] unexpected state after head".into()),
                                    };
                                    // response
                                    let mut head = if refused {
                                        refusal.to_string()
                                    } else {
                                        let st = if framing == "none304" { 304 } else { 200 };
                                        let mut h = format!("HTTP/{} {} X\r\n", resp_v, st);
                                        match framing {
                                            "cl" => h.push_str("Content-Length: 2\r\n"),
                                            "chunked" => h.push_str("Transfer-Encoding: chunked\r\n"),
                                            _ => {}
                                        }
                                        if let Some(c) = resp_close {
                                            for part in c.split('|') {
                                                h.push_str(&format!("Connection: {}\r\n", part));
                                            }
                                        }
                                        h.push_str("\r\n");
                                        h
                                    };
                                    let gave_up = expect && handshake == 3;
                                    if late_100 && gave_up {
                                        let l = b"HTTP/1.1 100 Continue\r\n\r\n";
                                        match rr.try_response(l) {
                                            Ok((25, None)) => {}
                                            other => { tagged_fail!("[C11] late 100 not skipped: {:?}", other.map(|o| (o.0, o.1.is_some()))); }
                                        }
                                    }
                                    if late_100 && expect && (gave_up || handshake == 0) {
                                        // "skipped exactly once": a further 100 (or a 100 after the awaited one was consumed) is handed to the caller
                                        let l = b"HTTP/1.1 100 Continue\r\n\r\n";
                                        match rr.try_response(l) {
                                            Ok((25, Some(r))) if r.status().as_u16() == 100 => {}
                                            other => { tagged_fail!("[C11] a second / unawaited 100 was not surfaced (handshake {}): {:?}", handshake, other.map(|o| (o.0, o.1.is_some()))); }
                                        }
                                    }
                                    if rr.can_proceed() {
                                        tagged_fail!("[C09] RecvResponse can proceed before a response");
                                    }
                                    match rr.try_response(head.as_bytes()) {
                                        Ok((u, Some(_))) if u == head.len() => {}
                                        other => return Err(format!("response {:?} -> {:?}", head, other.map(|o| (o.0, o.1.is_some())))),
                                    }
                                    head.clear();
                                    let chunked_eff = framing == "chunked" && resp_v == "1.1" && !refused;
                                    if refused && handshake == 4 {
                                        // a 1xx final answer has no body: the flow ends in cleanup and must close
                                    }
                                    let close_delim = if refused { handshake == 1 || handshake == 5 } else { (framing == "chunked" && !chunked_eff) || framing == "close" };
                                    let cleanup = match rr.proceed() {
                                        Some(RecvResponseResult::RecvBody(mut rb)) => {
                                            let body: &[u8] = if chunked_eff { b"2\r\nok\r\n0\r\n\r\n" } else { b"ok" };
                                            let mut o = vec![0u8; 16];
                                            rb.read(body, &mut o).map_err(|e| format!("{:?}", e))?;
                                            if chunked_eff {
                                                rb.read(&body[7..], &mut o).map_err(|e| format!("{:?}", e))?;
                                            }
                                            if !rb.can_proceed() {
                                                tagged_fail!("[C09] body not complete ({} {})", framing, resp_v);
                                            }
                                            match rb.proceed() {
                                                Some(RecvBodyResult::Cleanup(c)) => c,
                                                _ => return Err("[C09] no cleanup".into()),
                                            }
                                        }
                                        Some(RecvResponseResult::Cleanup(c)) => c,
                                        _ => return Err("[C09] unexpected state after response".into()),
                                    };
                                    let says_close = |c: Option<&str>| c.map(|c| c.split('|').any(|p| p == "close")).unwrap_or(false);
                                    let want = req_v == Version::HTTP_10 || says_close(req_close) || (!refused && says_close(resp_close)) || refused || close_delim;
                                    if cleanup.must_close_connection() != want || cleanup.close_reason().is_some() != want {
                                        tagged_fail!(
                                            "[C10] verdict {} want {} (req {:?} close {:?} expect {} handshake {} resp {} framing {} resp_close {:?}) reason {:?}",
                                            cleanup.must_close_connection(), want, req_v, req_close, expect, handshake, resp_v, framing, resp_close, cleanup.close_reason()
                                        );
                                    }
                                }
                            }
                        }
                    }
                }
            }
        }
    }
    // a body sent despite the method is a body like any other: with Expect it waits for 100 (and a late 100 is skipped)
    for m in ["GET", "DELETE", "OPTIONS"] {
        n += 1;
        let req = Request::builder().method(m).uri("http://a.test/x").header("expect", "100-continue").body(()).unwrap();
        let mut p = Flow::new(req).map_err(|e| format!("{:?}", e))?;
        p.send_body_despite_method();
        let mut f = p.proceed();
        let mut out = vec![0u8; 1024];
        f.write(&mut out).map_err(|e| format!("{:?}", e))?;
        match f.proceed() {
            Ok(Some(SendRequestResult::Await100(_))) => {}
            Ok(Some(SendRequestResult::SendBody(_))) => { tagged_fail!("[C09,C11] {} + Expect + send_body_despite_method: body sent without awaiting 100", m); }
            _ => { tagged_fail!("[C09] {} + Expect + send_body_despite_method: unexpected state after the head", m); }
        }
    }
    // readiness agrees with advancing at EVERY point of a sized body, including before the first write and for an empty body
    for total in [0usize, 1, 3] {
        for step in [0usize, 1, 2] {
            n += 1;
            let req = Request::post("http://a.test/x").header("content-length", total.to_string()).body(()).unwrap();
            let mut sb = to_send_body(req)?;
            let mut sent = 0usize;
            let mut out = vec![0u8; 64];
            for round in 0..8 {
                if sb.can_proceed() {
                    break;
                }
                let k = if round == 0 { step.min(total - sent) } else { total - sent };
                sb.write(&vec![b'x'; k], &mut out).map_err(|e| format!("{:?}", e))?;
                sent += k;
            }
            if !sb.can_proceed() {
                tagged_fail!("[C09,C04] sized body of {} bytes never reported finished", total);
            }
            // a flow that says it can proceed must proceed (a panic here is reported by the harness as a library panic)
            if sb.proceed().is_none() {
                tagged_fail!("[C09] SendBody: can_proceed() but proceed() is None (content-length {}, first write {})", total, step);
            }
        }
    }
    // successor after the response: Redirect iff the STATUS is a 3xx other than 304, whatever Location says,
    // and the same on both edges (with and without a response body)
    for status in [200u16, 201, 204, 300, 301, 302, 303, 304, 305, 307, 308, 399, 400] {
        for location in [false, true] {
            for body in [false, true] {
              for srv_close in [false, true] {
                n += 1;
                let mut head = format!("HTTP/1.1 {} X\r\n", status);
                if srv_close {
                    head.push_str("Connection: close\r\n");
                }
                if location {
                    head.push_str("Location: /items/1\r\n");
                }
                head.push_str(if body { "Content-Length: 2\r\n\r\n" } else { "Content-Length: 0\r\n\r\n" });
                let mut rr = to_recv_response(get_req())?;
                match rr.try_response(head.as_bytes()) {
                    Ok((u, Some(_))) if u == head.len() => {}
                    other => return Err(format!("response {:?} -> {:?}", head, other.map(|o| (o.0, o.1.is_some())))),
                }
                let want_redirect = (300..400).contains(&status) && status != 304;
                let has_body = body && status != 204 && status != 304;
                let mut verdicts: Vec<(bool, bool)> = vec![];
                let got = match rr.proceed() {
                    Some(RecvResponseResult::RecvBody(mut rb)) => {
                        if !has_body {
                            tagged_fail!("[C09] RecvBody for a response without body: {:?}", head);
                        }
                        let mut o = [0u8; 8];
                        rb.read(b"ok", &mut o).map_err(|e| format!("{:?}", e))?;
                        if !rb.can_proceed() {
                            tagged_fail!("[C09] sized body not complete");
                        }
                        match rb.proceed() {
                            Some(RecvBodyResult::Redirect(r)) => { verdicts.push((r.must_close_connection(), r.close_reason().is_some())); true }
                            Some(RecvBodyResult::Cleanup(c)) => { verdicts.push((c.must_close_connection(), c.close_reason().is_some())); false }
                            None => return Err("[C09] RecvBody::proceed None although can_proceed".into()),
                        }
                    }
                    Some(RecvResponseResult::Redirect(r)) => {
                        if has_body {
                            tagged_fail!("[C09] body skipped: {:?}", head);
                        }
                        verdicts.push((r.must_close_connection(), r.close_reason().is_some()));
                        true
                    }
                    Some(RecvResponseResult::Cleanup(c)) => {
                        if has_body {
                            tagged_fail!("[C09] body skipped: {:?}", head);
                        }
                        verdicts.push((c.must_close_connection(), c.close_reason().is_some()));
                        false
                    }
                    None => return Err("[C09] RecvResponse::proceed None after a response".into()),
                };
                if got != want_redirect {
                    tagged_fail!("[C09,C15] successor after {:?}: redirect={} want {}", head, got, want_redirect);
                }
                // C10: the verdict is the same function of the close conditions in the redirect and in the cleanup state
                for (must_close, has_reason) in verdicts {
                    if must_close != srv_close || has_reason != srv_close {
                        tagged_fail!("[C10] verdict after {:?} (redirect state: {}): must_close {} reason given {} want {}", head, got, must_close, has_reason, srv_close);
                    }
                }
              }
            }
        }
    }
    Ok((n, n))
}

// ------------------------------------------------------------------------------------------------ C12
fn twin_c12_grammar() -> R {
    // grammar-aware hostile inputs: oversize numbers, stray CR/LF, junk sizes
    let mut n = 0u64;
    let sizes = ["10000000000000005", "FFFFFFFFFFFFFFFFF", "00000000000000000003", "100000000000000000000", "+5", "-5", " 5 ", "5 ;x", "0x5", "", ";", "g", "\u{e9}", "ffffffffffffffff", "7fffffffffffffff"];
    for sz in sizes {
        for tail in ["\r\nabcde\r\n0\r\n\r\n", "\r\n", "\r", "\nabc", "\r\r\n"] {
            for osz in [0usize, 1, 3, 64] {
                n += 1;
                let input = format!("{}{}", sz, tail).into_bytes();
                let r = std::panic::catch_unwind(|| {
                    let mut b = to_recv_body(b"HTTP/1.1 200 OK\r\nTransfer-Encoding: chunked\r\n\r\n").unwrap();
                    let mut off = 0;
                    let mut produced = Vec::new();
                    for _ in 0..16 {
                        let mut out = vec![0u8; osz];
                        match b.read(&input[off..], &mut out) {
                            Ok((ci, co)) => {
                                assert!(ci <= input.len() - off && co <= osz, "counts");
                                produced.extend_from_slice(&out[..co]);
                                off += ci;
                                if ci == 0 && co == 0 { break; }
                            }
                            Err(_) => { let _ = b.read(&input[off..], &mut out); break; }
                        }
                    }
                    // every produced byte is a copy of a consumed byte, in order
                    let mut j = 0;
                    for p in &produced {
                        while j < off && input[j] != *p { j += 1; }
                        assert!(j < off, "produced byte not taken from the consumed input");
                        j += 1;
                    }
                    // a size that does not fit usize can never be accepted as a small chunk
                    if sz.len() >= 17 && sz.trim_start_matches('0').len() >= 17 { assert!(produced.is_empty(), "oversize chunk length accepted"); }
                });
                if r.is_err() {
                    return Err(format!("panic / bad counts on chunk size line {:?} tail {:?} out {}", sz, tail, osz));
                }
            }
        }
    }
    // over-long field name, many fields, five close conditions are covered by the flow twins
    Ok((n, n))
}

fn twin_c12() -> R {
    let mut n = 0u64;
    let alphabet: &[u8] = b"H1 0\r\n:;fa";
    let maxlen = if big() { 6 } else { 5 };
    let mut idx = vec![0usize; maxlen];
    // exhaustive over the alphabet up to maxlen, offered to every server facing call
    'outer: loop {
        for len in [maxlen] {
            let s: Vec<u8> = idx[..len].iter().map(|&i| alphabet[i]).collect();
            n += 1;
            let r = std::panic::catch_unwind(|| {
                let mut f = to_recv_response(get_req()).unwrap();
                let _ = f.try_response(&s);
                let mut b = to_recv_body(b"HTTP/1.1 200 OK\r\nTransfer-Encoding: chunked\r\n\r\n").unwrap();
                let mut out = [0u8; 3];
                let mut off = 0;
                for _ in 0..8 {
                    match b.read(&s[off..], &mut out) {
                        Ok((ci, co)) => {
                            assert!(ci <= s.len() - off && co <= 3);
                            off += ci;
                            if ci == 0 && co == 0 {
                                break;
                            }
                        }
                        Err(_) => break,
                    }
                }
                let _ = b.can_proceed();
            });
            if r.is_err() {
                return Err(format!("panic on server bytes {:?}", String::from_utf8_lossy(&s)));
            }
        }
        // next
        let mut p = 0;
        loop {
            if p == maxlen {
                break 'outer;
            }
            idx[p] += 1;
            if idx[p] < alphabet.len() {
                break;
            }
            idx[p] = 0;
            p += 1;
        }
    }
    // grammar-aware oversize inputs (the property's quantifier: "oversize numbers, stray CR/LF, >128 fields"): field names
    // and values longer than any internal limit, a status line without end, many empty fields - offered to every head-reading call
    let long_name = vec![b'a'; 70000];
    let mut heads: Vec<Vec<u8>> = vec![];
    for name_len in [65535usize, 65536, 70000] {
        let mut h = b"HTTP/1.1 200 OK\r\n".to_vec();
        h.extend_from_slice(&long_name[..name_len]);
        h.extend_from_slice(b": v\r\n\r\n");
        heads.push(h);
    }
    let mut h = b"HTTP/1.1 200 OK\r\nx: ".to_vec();
    h.extend_from_slice(&vec![b'v'; 100000]);
    h.extend_from_slice(b"\r\n\r\n");
    heads.push(h);
    let mut h = b"HTTP/1.1 200 ".to_vec();
    h.extend_from_slice(&vec![b'r'; 100000]);
    heads.push(h);
    for h in &heads {
        for cut in [h.len(), h.len() - 1, h.len() - 4, 66000.min(h.len())] {
            n += 1;
            let pre = &h[..cut];
            let r = std::panic::catch_unwind(|| {
                let mut f = to_recv_response(get_req()).unwrap();
                let _ = f.try_response(pre);
                let _ = f.can_proceed();
                let _ = try_parse_response::<4>(pre);
                let _ = try_parse_partial_response::<4>(pre);
                let req = Request::put("http://a.test/x").header("expect", "100-continue").body(()).unwrap();
                let mut fl = Flow::new(req).unwrap().proceed();
                let mut out = vec![0u8; 256];
                fl.write(&mut out).unwrap();
                if let Ok(Some(SendRequestResult::Await100(mut a))) = fl.proceed() {
                    let _ = a.try_read_100(pre);
                    let _ = a.proceed();
                }
            });
            if r.is_err() {
                return Err(format!("panic on an oversize head ({} bytes, cut {}, starts {:?})", h.len(), cut, String::from_utf8_lossy(&h[..24])));
            }
        }
    }
    // "state-advancing calls made afterwards do not panic either": well-formed but unexpected heads (interim statuses that
    // nobody awaited, a second 100, bodiless statuses with framing headers, redirects without Location), whole and cut at
    // every position, then every readiness query followed by the advance it promises, into the body and out of it
    let heads2: Vec<&[u8]> = vec![
        b"HTTP/1.1 100 Continue\r\n\r\n", b"HTTP/1.1 100 Continue\r\n\r\nHTTP/1.1 100 Continue\r\n\r\n", b"HTTP/1.0 100 \r\n\r\n",
        b"HTTP/1.1 100 Continue\r\nx: y\r\n\r\n", b"HTTP/1.1 101 Switching\r\n\r\n", b"HTTP/1.1 102 P\r\ncontent-length: 3\r\n\r\nabc",
        b"HTTP/1.1 199 X\r\ntransfer-encoding: chunked\r\n\r\n3\r\nabc\r\n0\r\n\r\n", b"HTTP/1.1 204 N\r\ncontent-length: 3\r\n\r\nabc",
        b"HTTP/1.1 304 N\r\ntransfer-encoding: chunked\r\n\r\nzz", b"HTTP/1.1 302 F\r\n\r\n", b"HTTP/1.1 302 F\r\nlocation: \xff\r\ncontent-length: 0\r\n\r\n",
        b"HTTP/1.1 200 OK\r\ncontent-length: 0\r\n\r\n", b"HTTP/1.1 200 OK\r\n\r\nrest", b"HTTP/1.1 999 Z\r\ncontent-length: 18446744073709551615\r\n\r\nab",
    ];
    for h in &heads2 {
        for kind in 0..3 {
            for cut in 0..=h.len() {
                n += 1;
                let pre = &h[..cut];
                let r = std::panic::catch_unwind(|| {
                    // kind 0: GET, nothing awaited; 1: PUT + Expect, gave up waiting, body sent; 2: PUT + Expect, the 100 was consumed first
                    let mut f = if kind == 0 {
                        to_recv_response(get_req()).unwrap()
                    } else {
                        let req = Request::put("http://a.test/x").header("expect", "100-continue").header("content-length", "0").body(()).unwrap();
                        let mut fl = Flow::new(req).unwrap().proceed();
                        let mut out = vec![0u8; 256];
                        fl.write(&mut out).unwrap();
                        let mut a = match fl.proceed() { Ok(Some(SendRequestResult::Await100(a))) => a, _ => return };
                        if kind == 2 { let _ = a.try_read_100(b"HTTP/1.1 100 Continue\r\n\r\n"); }
                        match a.proceed() {
                            Ok(Await100Result::SendBody(mut sb)) => {
                                let _ = sb.write(&[], &mut out);
                                if !sb.can_proceed() { return; }
                                match sb.proceed() { Some(f) => f, None => panic!("SendBody::can_proceed() but proceed() is None") }
                            }
                            Ok(Await100Result::RecvResponse(f)) => f,
                            Err(_) => return,
                        }
                    };
                    let mut off = 0;
                    for _ in 0..3 {
                        match f.try_response(&pre[off..]) { Ok((c, _)) => { assert!(c <= pre.len() - off, "counts"); off += c; if c == 0 { break; } } Err(_) => break }
                        if f.can_proceed() { break; }
                    }
                    if !f.can_proceed() { return; }
                    let next = match f.proceed() { Some(x) => x, None => panic!("RecvResponse::can_proceed() but proceed() is None") };
                    match next {
                        RecvResponseResult::RecvBody(mut b) => {
                            let mut out = [0u8; 2];
                            for _ in 0..12 {
                                match b.read(&pre[off..], &mut out) { Ok((ci, co)) => { assert!(ci <= pre.len() - off && co <= 2, "counts"); off += ci; if ci == 0 && co == 0 { break; } } Err(_) => break }
                            }
                            if b.can_proceed() {
                                match b.proceed() { Some(RecvBodyResult::Redirect(mut rd)) => { let _ = rd.as_new_flow(RedirectAuthHeaders::Never); let _ = rd.proceed(); } Some(RecvBodyResult::Cleanup(c)) => { let _ = c.must_close_connection(); } None => panic!("RecvBody::can_proceed() but proceed() is None") }
                            }
                        }
                        RecvResponseResult::Redirect(mut rd) => { let _ = rd.as_new_flow(RedirectAuthHeaders::SameHost); let _ = rd.proceed(); }
                        RecvResponseResult::Cleanup(c) => { let _ = c.must_close_connection(); }
                    }
                });
                if r.is_err() {
                    return Err(format!("panic in a state-advancing call after server bytes {:?} (request kind {})", String::from_utf8_lossy(pre), kind));
                }
            }
        }
    }
    Ok((n, n))
}

// ------------------------------------------------------------------------------------------------ C13 C14 C15
fn twin_c13_c14_c15() -> R {
    let mut n = 0u64;
    let methods = [Method::GET, Method::HEAD, Method::POST, Method::PUT, Method::DELETE, Method::OPTIONS, Method::PATCH, Method::TRACE, Method::CONNECT];
    let statuses: Vec<u16> = if big() { (300..=399).collect() } else { vec![300, 301, 302, 303, 304, 305, 306, 307, 308, 310, 399] };
    for m in &methods {
        for &st in &statuses {
            n += 1;
            let req = Request::builder().method(m.clone()).uri("http://a.test/x").header("authorization", "tok").body(()).unwrap();
            let needs_body = matches!(*m, Method::POST | Method::PUT | Method::PATCH);
            let mut flow = Flow::new(req).map_err(|e| format!("{:?}", e))?.proceed();
            let mut out = vec![0u8; 1024];
            flow.write(&mut out).map_err(|e| format!("{:?}", e))?;
            let mut rr = match flow.proceed() {
                Ok(Some(SendRequestResult::RecvResponse(f))) => f,
                Ok(Some(SendRequestResult::SendBody(mut sb))) => {
                    sb.write(&[], &mut out).map_err(|e| format!("{:?}", e))?;
                    sb.proceed().ok_or("cannot proceed")?
                }
                _ => return Err("unexpected".into()),
            };
            let head = format!("HTTP/1.1 {} X\r\nLocation: /first\r\nLocation: http://b.test/z?q#frag\r\nContent-Length: 0\r\n\r\n", st);
            rr.try_response(head.as_bytes()).map_err(|e| format!("{:?}", e))?;
            match rr.proceed() {
                Some(RecvResponseResult::Redirect(mut red)) => {
                    if st == 304 {
                        tagged_fail!("[C15] 304 entered the redirect state");
                    }
                    if red.status().as_u16() != st {
                        tagged_fail!("[C15] redirect reports a different status");
                    }
                    let want: Option<Method> = if st == 307 || st == 308 {
                        if needs_body || *m == Method::DELETE { None } else { Some(m.clone()) }
                    } else if *m == Method::GET || *m == Method::HEAD {
                        Some(m.clone())
                    } else {
                        Some(Method::GET)
                    };
                    let next = red.as_new_flow(RedirectAuthHeaders::SameHost).map_err(|e| format!("{:?}", e))?;
                    match (next, want) {
                        (None, None) => {}
                        (Some(f), Some(w)) => {
                            if *f.method() != w {
                                tagged_fail!("[C15] {} {:?}: redirected with {:?}, want {:?}", st, m, f.method(), w);
                            }
                            if f.uri().to_string() != "http://b.test/z?q" {
                                tagged_fail!("[C14] target {:?}", f.uri().to_string());
                            }
                            let mut sr = f.proceed();
                            let mut o = vec![0u8; 1024];
                            let k = sr.write(&mut o).map_err(|e| format!("{:?}", e))?;
                            let h = String::from_utf8_lossy(&o[..k]).to_lowercase();
                            if h.contains("authorization") {
                                tagged_fail!("[C13] authorization leaked to another host");
                            }
                            if !h.contains("host: b.test") || !h.starts_with(&format!("{} /z?q http/1.1\r\n", w.as_str().to_lowercase())) {
                                tagged_fail!("[C14] request line / host wrong: {:?}", h);
                            }
                        }
                        (a, b) => { tagged_fail!("[C15] {} {:?}: followed={} want {:?}", st, m, a.is_some(), b); }
                    }
                }
                Some(RecvResponseResult::Cleanup(_)) if st == 304 => {}
                _ => { tagged_fail!("[C15] status {}: wrong state", st); }
            }
        }
    }
    // chains: auth policy against the ORIGINAL uri, resolution against the CURRENT uri
    let hops: [(&str, &str, bool); 8] = [
        // (location, expected uri, authorization MAY be kept under SameHost - C13 is an "only if")
        ("/p1", "http://a.test/p1", true),
        ("p2?x=1", "http://a.test/p2?x=1", true),
        ("https://a.test/s", "https://a.test/s", true),
        ("http://a.test/down", "http://a.test/down", true),
        ("//b.test/other", "http://b.test/other", false),
        ("../up/./x", "http://b.test/up/x", false),
        ("http://a.test:8080/port", "http://a.test:8080/port", true),
        ("https://a.test/back#frag", "https://a.test/back", true),
    ];
    for policy in [RedirectAuthHeaders::Never, RedirectAuthHeaders::SameHost] {
        let req = Request::post("http://a.test/start/here").header("authorization", "secret").header("cookie", "c=1").header("content-length", "0").body(()).unwrap();
        let mut flow = Flow::new(req).map_err(|e| format!("{:?}", e))?;
        for (loc, want_uri, keep) in hops.iter() {
            n += 1;
            let mut rr = to_recv_response_from(flow)?;
            let head = format!("HTTP/1.1 302 Found\r\nLocation: {}\r\nContent-Length: 0\r\n\r\n", loc);
            rr.try_response(head.as_bytes()).map_err(|e| format!("{:?}", e))?;
            let mut red = match rr.proceed() {
                Some(RecvResponseResult::Redirect(f)) => f,
                _ => return Err("not Redirect".into()),
            };
            flow = red.as_new_flow(policy).map_err(|e| format!("{} -> {:?}", loc, e))?.ok_or("not followed")?;
            if flow.uri().to_string() != *want_uri {
                tagged_fail!("[C14] Location {:?} resolved to {:?}, want {:?}", loc, flow.uri().to_string(), want_uri);
            }
            let mut probe = clone_chain(policy, &hops, loc)?;
            let mut o = vec![0u8; 2048];
            let k = probe.write(&mut o).map_err(|e| format!("{:?}", e))?;
            let h = String::from_utf8_lossy(&o[..k]).to_lowercase();
            let has_auth = h.contains("authorization: secret");
            let may_auth = policy == RedirectAuthHeaders::SameHost && *keep;
            if has_auth && !may_auth {
                tagged_fail!("[C13] hop {:?} policy {:?}: authorization present although it must not be", loc, policy);
            }
            if h.contains("cookie:") || h.contains("content-length:") {
                tagged_fail!("[C13] hop {:?}: stale cookie / content-length sent: {:?}", loc, h);
            }
        }
    }
    // an https original request: a downgrade to http on the same host must never carry the credential (first or later hop)
    for hops2 in [vec!["http://a.test/down"], vec!["https://b.test/x", "http://a.test/back"], vec!["/same", "http://a.test/later"]] {
        n += 1;
        let req = Request::get("https://a.test/start").header("authorization", "secret").body(()).unwrap();
        let mut flow = Flow::new(req).map_err(|e| format!("{:?}", e))?;
        for loc in &hops2 {
            let mut rr = to_recv_response_from(flow)?;
            let head = format!("HTTP/1.1 302 Found\r\nLocation: {}\r\nContent-Length: 0\r\n\r\n", loc);
            rr.try_response(head.as_bytes()).map_err(|e| format!("{:?}", e))?;
            let mut red = match rr.proceed() {
                Some(RecvResponseResult::Redirect(f)) => f,
                _ => return Err("not Redirect".into()),
            };
            flow = red.as_new_flow(RedirectAuthHeaders::SameHost).map_err(|e| format!("{} -> {:?}", loc, e))?.ok_or("not followed")?;
        }
        let target = flow.uri().to_string();
        let mut sr = flow.proceed();
        let mut o = vec![0u8; 2048];
        let k = sr.write(&mut o).map_err(|e| format!("{:?}", e))?;
        let h = String::from_utf8_lossy(&o[..k]).to_lowercase();
        if target.starts_with("http://") && h.contains("authorization") {
            tagged_fail!("[C13] https original, hops {:?}: credential sent in clear text to {}", hops2, target);
        }
    }
    // errors, never panics
    for (loc, ok) in [(&b"http://[bad"[..], false), (b"\xff\xfe", false), (b"", true), (b"?q", true)] {
        n += 1;
        let mut rr = to_recv_response(get_req())?;
        let mut head = b"HTTP/1.1 302 Found\r\nLocation: ".to_vec();
        head.extend_from_slice(loc);
        head.extend_from_slice(b"\r\nContent-Length: 0\r\n\r\n");
        rr.try_response(&head).map_err(|e| format!("{:?}", e))?;
        if let Some(RecvResponseResult::Redirect(mut red)) = rr.proceed() {
            let r = std::panic::catch_unwind(std::panic::AssertUnwindSafe(|| red.as_new_flow(RedirectAuthHeaders::Never).map(|o| o.is_some())));
            match r {
                Ok(Ok(true)) if ok => {}
                Ok(Err(_)) if !ok => {}
                other => { tagged_fail!("[C14] Location {:?}: {:?}", String::from_utf8_lossy(loc), other.map(|x| x.is_ok())); }
            }
        }
    }
    // a request whose own uri is relative (origin-form "/x" + Host header): a relative Location has no base: an error, never a panic
    for loc in ["/y", "y?z", "http://b.test/abs"] {
        n += 1;
        let req = Request::get("/x").header("host", "a.test").body(()).unwrap();
        let mut rr = to_recv_response(req)?;
        let head = format!("HTTP/1.1 302 Found\r\nLocation: {}\r\nContent-Length: 0\r\n\r\n", loc);
        rr.try_response(head.as_bytes()).map_err(|e| format!("{:?}", e))?;
        if let Some(RecvResponseResult::Redirect(mut red)) = rr.proceed() {
            let r = std::panic::catch_unwind(std::panic::AssertUnwindSafe(|| red.as_new_flow(RedirectAuthHeaders::Never).map(|o| o.is_some())));
            if r.is_err() {
                tagged_fail!("[C14] relative request uri + Location {:?}: panic", loc);
            }
        }
    }
    // missing Location
    let mut rr = to_recv_response(get_req())?;
    rr.try_response(b"HTTP/1.1 302 Found\r\nContent-Length: 0\r\n\r\n").map_err(|e| format!("{:?}", e))?;
    if let Some(RecvResponseResult::Redirect(mut red)) = rr.proceed() {
        if red.as_new_flow(RedirectAuthHeaders::Never).is_ok() {
            tagged_fail!("[C14] missing Location not reported");
        }
    }
    Ok((n, n))
}

fn clone_chain(policy: RedirectAuthHeaders, hops: &[(&str, &str, bool)], upto: &str) -> Result<Flow<(), SendRequest>, String> {
    let req = Request::post("http://a.test/start/here").header("authorization", "secret").header("cookie", "c=1").header("content-length", "0").body(()).unwrap();
    let mut flow = Flow::new(req).map_err(|e| format!("{:?}", e))?;
    for (loc, _, _) in hops.iter() {
        let mut rr = to_recv_response_from(flow)?;
        let head = format!("HTTP/1.1 302 Found\r\nLocation: {}\r\nContent-Length: 0\r\n\r\n", loc);
        rr.try_response(head.as_bytes()).map_err(|e| format!("{:?}", e))?;
        let mut red = match rr.proceed() {
            Some(RecvResponseResult::Redirect(f)) => f,
            _ => return Err("not Redirect".into()),
        };
        flow = red.as_new_flow(policy).map_err(|e| format!("{:?}", e))?.ok_or("not followed")?;
        if loc == &upto {
            break;
        }
    }
    Ok(flow.proceed())
}

// ------------------------------------------------------------------------------------------------ driver
#[test]
fn twin() {
    let sel = std::env::var("VERIF_TWIN").unwrap_or_else(|_| "ALL".into());
    let want = |ids: &[&str]| sel == "ALL" || ids.iter().any(|i| sel.split(',').any(|s| s == *i));
    let twins: Vec<(&[&str], &str, fn() -> R)> = vec![
        (&["C03", "C01"], "chunked-request-body", twin_c03),
        (&["C04", "C01"], "content-length-request-body", twin_c04),
        (&["C18", "C19"], "max-input-and-progress", twin_c18_c19),
        (&["C02", "C16", "C13", "C01"], "request-head-and-effective-headers", twin_c02_c16),
        (&["C17"], "request-validation", twin_c17),
        (&["C05", "C20", "C01"], "head-parsers-and-httparse-conformance", twin_c05_c20),
        (&["C06"], "response-framing-table", twin_c06),
        (&["C07", "C01"], "chunked-response-decoding", twin_c07),
        (&["C08", "C01"], "length-and-close-delimited-bodies", twin_c08),
        (&["C09", "C10", "C11", "C15"], "state-graph-handshake-and-verdict", twin_c10_c11_c09),
        (&["C12"], "hostile-server-bytes", twin_c12),
        (&["C12", "C07"], "hostile-chunk-size-lines", twin_c12_grammar),
        (&["C13", "C14", "C15"], "redirects", twin_c13_c14_c15),
    ];
    let mut failed = false;
    for (ids, name, f) in twins {
        if !want(ids) {
            continue;
        }
        let t0 = std::time::Instant::now();
        // Each twin runs in its own thread with a watchdog: a run that does not come back is a hang of the library
        // on input the public API accepts (C12) and is reported as a failing input, the remaining twins still run.
        // A panic raised INSIDE the library (location under src/) is a failing input like any other; a panic of the
        // twin's own code is a harness error.
        let limit = std::time::Duration::from_secs(if big() { 1800 } else { 300 });
        let (tx, rx) = std::sync::mpsc::channel();
        std::thread::spawn(move || {
            let loc = std::sync::Arc::new(std::sync::Mutex::new(String::new()));
            let loc2 = loc.clone();
            std::panic::set_hook(Box::new(move |info| {
                let l = info.location().map(|l| format!("{}:{}", l.file(), l.line())).unwrap_or_default();
                let msg = info.payload().downcast_ref::<&str>().map(|s| s.to_string()).or_else(|| info.payload().downcast_ref::<String>().cloned()).unwrap_or_default();
                *loc2.lock().unwrap() = format!("{} {}", l, msg);
            }));
            let res = std::panic::catch_unwind(f);
            let res: Result<R, String> = match res {
                Ok(r) => Ok(r),
                Err(_) => {
                    let l = loc.lock().unwrap().clone();
                    if (l.starts_with("src/") || l.contains("/src/")) && !l.contains("verif_twin") {
                        Ok(Err(format!("the library panicked at {}", l)))
                    } else {
                        Err(l)
                    }
                }
            };
            let _ = tx.send(res);
        });
        let res: R = match rx.recv_timeout(limit) {
            Ok(Ok(r)) => r,
            Ok(Err(l)) => panic!("twin {} panicked in its own code: {}", name, l),
            Err(_) => Err(format!("the run did not come back within {} s: the library hangs on an input of this twin", limit.as_secs())),
        };
        match res {
            Ok((ev, dn)) => println!("TWIN {} {} evaluations={} distinct={} ms={}", ids.join("+"), name, ev, dn, t0.elapsed().as_millis()),
            Err(e) => {
                println!("TWIN-FAIL {} {} {}", ids.join("+"), name, e.replace('\n', " | "));
                failed = true;
            }
        }
    }
    assert!(!failed, "a twin found a failing input");
}
