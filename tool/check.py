#!/usr/bin/env python3
"""Decide one property: weave /repo's current sources with the contracts, run Verus,
classify every failed obligation, replay, write evidence.

  check.py C03 [--tier quick|thorough] [--repo /repo]

exit 0  every obligation of the property discharged (KNOWN-FINDING lines allowed)
exit 1  VIOLATION property=<id> replay=<path> [no-failing-input-found]
exit 2  inconclusive (lost anchor, rustc error in woven text, resource limit): never an alarm
"""
import sys, os, re, json, time, subprocess, argparse, shutil, hashlib, tempfile

HERE = os.path.dirname(os.path.abspath(__file__))
VERIF = os.path.dirname(HERE)
sys.path.insert(0, HERE)
import weave
import props as P

VERIFICATION_MSGS = (
    'postcondition not satisfied', 'precondition not satisfied', 'invariant not satisfied',
    'assertion failed', 'possible arithmetic underflow/overflow', 'possible division by zero',
    'decreases not satisfied', 'recommendation not met', 'panic', 'unreachable', 'loop invariant',
    'cannot prove', 'failed', 'might not', 'possible',
)
INCONCLUSIVE_MSGS = ('resource limit', 'rlimit', 'timed out', 'internal error', 'solver')


def run_verus(path, modules, rlimit, seed, extra=()):
    cmd = ['verus', path, '--output-json', '--time', '--error-format=json', '--multiple-errors', '20',
           '--rlimit', str(rlimit), '--num-threads', '16']
    if seed:
        cmd += ['--smt-option', 'smt.random_seed=%d' % (seed % 1000000)]
    for m in modules or []:
        cmd += ['--verify-module', m]
    cmd += list(extra)
    t0 = time.time()
    p = subprocess.run(cmd, stdout=subprocess.PIPE, stderr=subprocess.PIPE, text=True)
    dt = time.time() - t0
    try:
        js = json.loads(p.stdout)
    except Exception:
        js = None
    diags = []
    for line in p.stderr.splitlines():
        line = line.strip()
        if line.startswith('{'):
            try:
                diags.append(json.loads(line))
            except Exception:
                pass
    return {'cmd': ' '.join(cmd), 'rc': p.returncode, 'json': js, 'diags': diags, 'stderr': p.stderr, 'wall': dt}


def classify(res, report):
    """-> (failures, inconclusive_reason)"""
    obls = report['obligations']
    fns = report['fn_ranges']
    failures = []
    inconclusive = None
    js = res['json']
    errs = [d for d in res['diags'] if d.get('level') == 'error']
    for d in errs:
        msg = d.get('message', '')
        low = msg.lower()
        if low.startswith('aborting due to'):
            continue
        if d.get('code') is not None or not d.get('spans'):
            if any(k in low for k in INCONCLUSIVE_MSGS):
                inconclusive = inconclusive or ('solver resource limit: ' + msg)
            elif d.get('code') is not None:
                inconclusive = inconclusive or ('rustc error in woven text: %s' % d.get('rendered', msg)[:600])
            else:
                inconclusive = inconclusive or ('verus error: ' + msg[:300])
            continue
        if any(k in low for k in INCONCLUSIVE_MSGS):
            inconclusive = inconclusive or ('solver resource limit: ' + msg)
            continue
        spans = d['spans']
        hit = None
        for sp in sorted(spans, key=lambda s: (0 if (s.get('label') or '').startswith('failed') else 1)):
            for o in obls:
                if o['line'] <= sp['line_start'] <= o['end'] or o['line'] <= sp['line_end'] <= o['end']:
                    hit = o
                    break
            if hit:
                break
        prim = next((s for s in spans if s.get('is_primary')), spans[0])
        site = None
        for f in fns:
            if f['start'] <= prim['line_start'] <= (f['end'] or 10 ** 9):
                site = f['path']
        # a failure inside a callee-precondition reports the call site as primary
        callsite = None
        for sp in spans:
            for f in fns:
                if f['start'] <= sp['line_start'] <= (f['end'] or 10 ** 9) and (hit is None or f['path'] != hit.get('fn')):
                    callsite = f['path']
        if not any(k in low for k in VERIFICATION_MSGS) and js and js.get('verification-results', {}).get('encountered-vir-error'):
            inconclusive = inconclusive or ('verus front-end error: ' + d.get('rendered', msg)[:600])
            continue
        hint = any(a <= prim['line_start'] <= b for a, b in report.get('hint_ranges', []))
        failures.append({
            'hint': hint,
            'message': msg,
            'obligation': hit['name'] if hit else None,
            'obligation_text': hit['text'] if hit else None,
            'declared_in': hit['fn'] if hit else None,
            'site': callsite or site,
            'line': prim['line_start'],
            'rendered': d.get('rendered', '')[:3000],
        })
    if js is None and not failures and not inconclusive:
        inconclusive = 'verus produced no JSON result: ' + res['stderr'][-600:]
    if js is not None:
        vr = js.get('verification-results', {})
        if vr.get('encountered-vir-error'):
            inconclusive = inconclusive or 'verus front-end (VIR) error'
        ok = vr.get('success', (vr.get('errors', 1) == 0 and not vr.get('encountered-error')))
        if not ok and not failures and not inconclusive:
            inconclusive = 'verus reported failure without a classifiable diagnostic: ' + res['stderr'][-600:]
    return failures, inconclusive


def error_sites(res, report):
    """functions of the woven file that contain the primary span of a rustc / front-end error"""
    out = set()
    for d in res['diags']:
        if d.get('level') != 'error' or not d.get('spans'):
            continue
        low = d.get('message', '').lower()
        if any(k in low for k in VERIFICATION_MSGS):
            continue
        prim = next((s for s in d['spans'] if s.get('is_primary')), d['spans'][0])
        for f in report['fn_ranges']:
            if f['start'] <= prim['line_start'] <= (f['end'] or 10 ** 9):
                out.add(f['path'])
    return out


def obligation_props(name):
    """property ids named in an obligation label: 'C03.x', 'C03/C19.x'"""
    if not name:
        return []
    head = name.split('.', 1)[0]
    return [p for p in head.split('/') if re.fullmatch(r'C\d\d', p)]


def carried(name, fn, prop, fn_props):
    """obligations named for ANOTHER property that this property's argument rests on (props.PROPS[prop]['depends_on']):
    a property id stands for that property's obligations in functions whose chain lists `prop`; a full obligation name
    stands for itself"""
    import props as P
    dep = P.PROPS.get(prop, {}).get('depends_on', [])
    if not name:
        return False
    if any(k['obligation'] == name for k in load_known()):
        # a listed known finding stays with the property that owns it (C01's quantifier hands KF2's schedules to C05)
        return False
    if name in dep:
        return True
    ps = obligation_props(name)
    return any(d in ps for d in dep) and prop in fn_props.get(fn or '', [])


def relevant(failure, prop, fn_props):
    ps = obligation_props(failure['obligation'])
    if ps:
        return prop in ps or carried(failure['obligation'], failure['declared_in'], prop, fn_props)
    # auxiliary / built-in safety obligation: belongs to every property whose chain contains the function
    for fpath in (failure['site'], failure['declared_in']):
        if fpath and prop in fn_props.get(fpath, []):
            return True
    return False


def load_known():
    out = []
    p = os.path.join(VERIF, 'known_findings.txt')
    if not os.path.exists(p):
        return out
    for line in open(p):
        line = line.strip()
        m = re.match(r'finding:\s+property=(C\d\d)\s+obligation=(\S+)(?:\s+site=(\S+))?\s+(.*)', line)
        if m:
            out.append({'property': m.group(1), 'obligation': m.group(2), 'site': m.group(3), 'what': m.group(4)})
    return out


def inconclusive_exit(prop, repo, tier, reason):
    """The verifier could not decide (lost anchor / unsupported construct / solver limit).  That is never an alarm
    by itself; but the bounded native twins still run on the real code, and a concrete failing input is reported."""
    import replay
    try:
        tw = replay.run_twins(repo, [prop], tier)
    except Exception as e:
        tw = {'built': False, 'twins': [], 'fails': [], 'tail': repr(e), 'cmd': ''}
    known = load_known()
    fails = [f for f in tw['fails'] if prop in f['properties'] and not any(k['property'] == prop and k['obligation'] == 'bounded.' + f['name'] for k in known)]
    if fails:
        os.makedirs(os.path.join(VERIF, 'replay', 'out'), exist_ok=True)
        rp = os.path.join(VERIF, 'replay', 'out', '%s-bounded.%s.json' % (prop, fails[0]['name']))
        with open(rp, 'w') as f:
            json.dump({'property': prop, 'failed_obligations': [{'obligation': 'bounded.' + x['name'], 'failing_input': x['failing_input']} for x in fails],
                       'verifier': 'INCONCLUSIVE: ' + reason,
                       'replay': {'found': True, 'twin': fails[0]['name'], 'failing_input': fails[0]['failing_input'], 'reproduce': tw['cmd']}}, f, indent=1)
        print('INCONCLUSIVE(verifier) property=%s %s' % (prop, reason[:300]))
        for x in fails:
            print('FAILED-OBLIGATION property=%s obligation=bounded.%s site=public API (replay/twin.rs) : %s' % (prop, x['name'], x['failing_input'][:300]))
        print('VIOLATION property=%s replay=%s' % (prop, rp))
        sys.exit(1)
    print('INCONCLUSIVE property=%s %s (bounded twins: %s)' % (prop, reason, 'no failing input' if tw['built'] else 'harness did not build'))
    sys.exit(2)


def main():
    ap = argparse.ArgumentParser()
    ap.add_argument('prop')
    ap.add_argument('--tier', default=os.environ.get('VERIF_TIER', 'quick'))
    ap.add_argument('--repo', default='/repo')
    ap.add_argument('--keep', action='store_true')
    a = ap.parse_args()
    prop = a.prop
    tier = 'thorough' if a.tier == 'thorough' else 'quick'
    seed = int(os.environ.get('VERIF_SEED', '0') or 0)
    if prop not in P.PROPS:
        print('unknown property %s' % prop)
        sys.exit(2)
    cfg = P.PROPS[prop]
    t0 = time.time()
    bdir = os.path.join(VERIF, 'build', prop)
    os.makedirs(bdir, exist_ok=True)
    out = os.path.join(bdir, 'hoot_verus.rs')
    # evidence/<id>.json describes a run of the registered command on /repo.  Experiments (seeded changes applied to
    # /repo, scratch copies given with --repo) must not overwrite it: they write under build/ instead.
    ev_dir = os.environ.get('VERIF_EVIDENCE_DIR') or (os.path.join(VERIF, 'evidence') if os.path.abspath(a.repo) == '/repo' else os.path.join(VERIF, 'build', 'experiment_evidence'))
    ev_path = os.path.join(ev_dir, prop + '.json')
    os.makedirs(os.path.dirname(ev_path), exist_ok=True)

    # 1. weave from the current working tree.  If rustc / the Verus front end rejects the woven text INSIDE a function
    #    extracted from the source (a construct outside the supported subset was introduced there), that function is
    #    kept under its contract only and the crate is woven again (at most 3 rounds): only the properties whose chain
    #    contains it become inconclusive.
    modules = None if tier == 'thorough' else cfg['modules']
    rlimit = 150 if tier == 'quick' else 300
    forced = {}
    for attempt in range(4):
        try:
            report = weave.build(a.repo, out, force_lost=forced)
        except weave.LostAnchor as e:
            inconclusive_exit(prop, a.repo, tier, 'weave: %s' % e)
        res = run_verus(out, modules, rlimit, seed)
        failures, inconclusive = classify(res, report)
        if not (inconclusive and ('rustc error' in inconclusive or 'front-end' in inconclusive)):
            break
        src_fns = set(f['path'] for f in report['functions'] if f['kind'] == 'exec' and str(f.get('origin', '')).startswith('src/'))
        sites = set(x for x in error_sites(res, report) if x in src_fns and x not in forced)
        if not sites or attempt == 3:
            break
        for x in sites:
            forced[x] = 'the verifier front end rejects the text of this function: ' + inconclusive[:200]
    fn_props = {f['path']: f['props'] for f in report['functions']}
    # functions whose annotations no longer applied (restructured): kept under contract only by the weaver.  A property
    # whose chain contains one of them cannot be decided by the verifier in this run (never an alarm); the others can.
    lost_here = [l for l in report.get('lost', []) if prop in l['props']]
    if lost_here:
        inconclusive_exit(prop, a.repo, tier, 'weave: ' + '; '.join(l['reason'] for l in lost_here)[:600])

    # 2. verify (done above; one retry with a larger resource limit)
    if inconclusive and 'resource limit' in inconclusive:
        res2 = run_verus(out, modules, rlimit * 4, seed + 1)
        f2, inc2 = classify(res2, report)
        if not inc2:
            res, failures, inconclusive = res2, f2, None
    runs = [res]

    rel = [f for f in failures if relevant(f, prop, fn_props)]
    # A failure INSIDE ghost text that the contract files inserted (an `assert` or lemma call written as a proof hint)
    # says that the hint no longer fits the code, not that a contract is violated: Verus assumes a failed assertion
    # afterwards, so nothing can be concluded from what follows it either.  Hint failures alone are "undecided".
    # `model.*` clauses are modelling choices that are stronger than the property (a closed form, say).  When one fails the
    # code has left the model: nothing in that function can be concluded by the verifier, in either direction.
    off_model = set(f['site'] for f in failures if (f['obligation'] or '').startswith('model.'))
    for f in failures:
        if f['site'] in off_model:
            f['hint'] = True
    rel = [f for f in failures if relevant(f, prop, fn_props) or (f['site'] in off_model and prop in fn_props.get(f['site'], []))]
    hint_fail = [f for f in rel if f.get('hint')]
    rel = [f for f in rel if not f.get('hint')]
    failures = [f for f in failures if not f.get('hint')]
    if hint_fail and not rel:
        if any(f['site'] in off_model for f in hint_fail):
            inconclusive_exit(prop, a.repo, tier, '%s no longer matches the model clause %s (a modelling choice stronger than the property): the verifier cannot decide this function, the bounded checks of the property itself do'
                              % (', '.join(sorted(off_model)), ', '.join(sorted(set(f['obligation'] for f in hint_fail if (f['obligation'] or '').startswith('model.'))))))
        inconclusive_exit(prop, a.repo, tier, 'a proof hint written for %s no longer goes through (%s): the proof is incomplete for the code as it is now'
                          % (', '.join(sorted(set(f['site'] or '?' for f in hint_fail))), hint_fail[0]['message']))
    if inconclusive and not rel:
        inconclusive_exit(prop, a.repo, tier, inconclusive)

    # 3. thorough extras: vacuity file, seeds
    extra_notes = []
    vac = None
    if tier == 'thorough':
        vac = vacuity_check(a.repo, bdir, report)
        if vac.get('vacuous'):
            print('INCONCLUSIVE property=%s vacuous contracts: %s' % (prop, ', '.join(vac['vacuous'][:10])))
            sys.exit(2)
        for s in (1, 2):
            r3 = run_verus(out, None, rlimit, seed + 100 * s + 7)
            f3, inc3 = classify(r3, report)
            rel3 = [f for f in f3 if relevant(f, prop, fn_props)]
            extra_notes.append({'seed': seed + 100 * s + 7, 'failures_for_property': len(rel3), 'inconclusive': inc3, 'wall_s': round(r3['wall'], 1)})
            runs.append(r3)

    # 4. known findings / violations
    known = load_known()
    violations = []
    known_hit = []
    for f in rel:
        k = next((k for k in known if k['property'] == prop and k['obligation'] == f['obligation'] and (k['site'] is None or k['site'] in (f['site'], f['declared_in']))), None)
        if k:
            if k['obligation'] not in [x['obligation'] for x in known_hit]:
                print('KNOWN-FINDING: property=%s %s [%s]' % (prop, k['what'], k['obligation']))
                known_hit.append(k)
        else:
            violations.append(f)

    # 5. native twins: bounded stand-in for the assumed contracts + replay search (one run serves both)
    import replay
    try:
        tw = replay.run_twins(a.repo, [prop], tier)
    except Exception as e:
        tw = {'built': False, 'twins': [], 'fails': [], 'tail': repr(e), 'cmd': '', 'wall_s': 0}
    bounded_violations = []
    tw['fails'] = [fl for fl in tw['fails'] if prop in fl['properties']]
    for fl in tw['fails']:
        kf = next((k for k in known if k['property'] == prop and k['obligation'] == 'bounded.' + fl['name']), None)
        if kf:
            print('KNOWN-FINDING: property=%s %s [bounded.%s]' % (prop, kf['what'], fl['name']))
            continue
        bounded_violations.append({'message': 'bounded native run found a failing input', 'obligation': 'bounded.' + fl['name'], 'obligation_text': fl['failing_input'],
                                   'declared_in': None, 'site': 'public API (replay/twin.rs)', 'line': 0, 'rendered': fl['failing_input']})
    # 5b. thorough tier: Kani harnesses (bounded) for the hoot functions that stay outside Verus
    kani = None
    # (also in the quick tier when an obligation failed and no twin produced an input: the harnesses then serve as the
    #  search for the verifier-side counterexample)
    if tier == 'thorough' or (violations and not tw['fails']):
        import kani_check
        if any(prop in v['props'] for v in kani_check.HARNESSES.values()):
            try:
                kani = kani_check.run_kani(a.repo, [prop])
            except Exception as e:
                kani = {'ran': [], 'fails': [], 'built': False, 'error': repr(e)}
            for fl in kani['fails']:
                bounded_violations.append({'message': 'Kani bounded harness failed', 'obligation': 'bounded.kani.' + fl['harness'], 'obligation_text': '; '.join(fl.get('failed_checks', [])),
                                           'declared_in': None, 'site': fl['function'] + ' (kani/verif_kani.rs)', 'line': 0, 'rendered': json.dumps(fl)})
    replay_path = None
    found_input = None
    if violations or bounded_violations:
        os.makedirs(os.path.join(VERIF, 'replay', 'out'), exist_ok=True)
        allv = violations + bounded_violations
        names = sorted(set((v['obligation'] or ('builtin@' + (v['site'] or '?'))) for v in allv))
        tag = re.sub(r'[^A-Za-z0-9_.-]', '_', names[0])[:80]
        replay_path = os.path.join(VERIF, 'replay', 'out', '%s-%s.json' % (prop, tag))
        if not tw['built']:
            found_input = {'found': False, 'note': 'twin harness did not build against this tree', 'tail': tw.get('tail', '')}
        elif tw['fails']:
            f0 = tw['fails'][0]
            found_input = {'found': True, 'twin': f0['name'], 'failing_input': f0['failing_input'], 'reproduce': tw['cmd']}
        elif kani and any(k.get('counterexample_values') for k in kani['fails']):
            k0 = next(k for k in kani['fails'] if k.get('counterexample_values'))
            found_input = {'found': True, 'kani_harness': k0['harness'], 'failing_input': 'kani::any() values in order: ' + ', '.join(k0['counterexample_values']),
                           'concrete_playback_test': k0.get('concrete_playback_test'), 'reproduce': k0['cmd']}
        else:
            found_input = {'found': False, 'note': 'small-scope search over the public API found no failing input',
                           'searched': [{'twin': t['name'], 'evaluations': t['evaluations']} for t in tw['twins']], 'reproduce': tw['cmd']}
        with open(replay_path, 'w') as f:
            json.dump({'property': prop, 'failed_obligations': allv, 'replay': found_input,
                       'checker_cmd': res['cmd'], 'verus_output': [v['rendered'] for v in violations][:20],
                       'reproduce': 'python3 /verif/tool/check.py %s' % prop}, f, indent=1)
    violations = violations + bounded_violations

    # 6. evidence
    my_obls = [o for o in report['obligations'] if prop in obligation_props(o['name'])
               or carried(o['name'], o['fn'], prop, fn_props)
               or (not obligation_props(o['name']) and prop in fn_props.get(o['fn'] or '', []))]
    my_fns = [f for f in report['functions'] if prop in f['props']]
    builtin = ['nopanic+termination.' + f['path'] for f in my_fns if f['kind'] in ('exec', 'lemma')]
    failed_names = set()
    for f in violations:
        failed_names.add(f['obligation'] or ('nopanic+termination.' + (f['site'] or '?')))
    # obligations that are listed known findings (they fail by design) are reported separately, not counted
    kf_names = set(k['obligation'] for k in known_hit)
    my_obls = [o for o in my_obls if o['name'] not in kf_names]
    n_obl = len(my_obls) + len(builtin)
    n_dis = n_obl - len([n for n in failed_names])
    js = res['json'] or {}
    # vacuity guard of every run: a check that generated no obligations, or a verifier run that did not actually
    # verify at least as many units as there are functions on the chain, proves nothing
    vres = js.get('verification-results', {})
    n_ver = vres.get('verified', 0) or 0
    if not violations and (n_obl == 0 or len(my_obls) == 0 or n_ver + (vres.get('errors', 0) or 0) < len(builtin)):
        print('INCONCLUSIVE property=%s vacuous run: %d named obligations, %d functions on the chain, verifier reports %d verified units' % (prop, len(my_obls), len(builtin), n_ver))
        sys.exit(2)
    times = js.get('times-ms', {})
    fn_times = []
    try:
        for m in times.get('smt', {}).get('smt-run-module-times', []):
            for fb in m.get('function-breakdown', []):
                fn_times.append({'function': fb.get('function'), 'ms': fb.get('time'), 'rlimit': fb.get('rlimit')})
    except Exception:
        pass
    fn_times.sort(key=lambda x: -(x.get('ms') or 0))
    trusted = sorted(set('%s: %s' % (t['kind'], t['what']) for t in report['trusted_scan']))
    samples = [{'obligation': o['name'], 'function': o['fn'], 'clause': o['text'][:300]} for o in my_obls if obligation_props(o['name'])][:12]
    if not samples:
        samples = [{'obligation': o['name'], 'function': o['fn'], 'clause': o['text'][:300]} for o in my_obls][:12]
    ev = {
        'property_id': prop,
        'tier': tier,
        'seed': seed,
        'level': 'proof',
        'coverage': {
            'obligations': n_obl,
            'discharged': max(n_dis, 0),
            'checker_cmd': res['cmd'],
            'trusted_base': trusted,
            'samples': samples,
            'back_end': 'Verus 0.2026.09.13 (Z3), single-file mode',
            'modules_verified': modules or 'whole woven crate',
            'verus_result': js.get('verification-results'),
            'functions_under_contract': [{'function': f['path'], 'kind': f['kind'], 'source': f['origin']} for f in my_fns],
            'trusted_hoot_functions': [t for t in report['trusted_hoot'] if prop in fn_props.get(t, [])],
            'named_obligations': [o['name'] for o in my_obls],
            'builtin_obligations': builtin,
            'verifier_units_verified_this_run': n_ver,
            'failed_obligations': sorted(failed_names),
            'functions_kept_under_contract_only_this_run': report.get('lost', []),
            'known_findings_not_counted': [{'obligation': k['obligation'], 'site': k['site'], 'what': k['what']} for k in known_hit],
            'solver_ms_total': times.get('smt', {}).get('total'),
            'verus_ms_total': times.get('total'),
            'slowest_functions': fn_times[:8],
            'normalisation_rules_applied': sorted(set('%s @ %s' % (r['rule'], r['where']) for r in report['rules'])),
            'not_extracted': report['not_extracted'],
            'extraction': {'items': len(report['items']), 'woven_sha256': report['woven_sha256'],
                           'source_items': report['items'][:400]},
            'bounded_stand_ins': {'labelled': 'BOUNDED - never counted in obligations/discharged',
                                  'what_they_stand_in_for': cfg.get('bounded', []),
                                  'runs': [{'twin': t['name'], 'evaluations': t['evaluations'], 'ms': t['ms'], 'exhaustive_over_stated_menu': True} for t in tw['twins']],
                                  'harness_built': tw['built'], 'cmd': tw.get('cmd'), 'wall_s': tw.get('wall_s'),
                                  'kani': kani},
            'thorough_runs': extra_notes,
            'vacuity': vac,
            'explanation': cfg['explanation'],
        },
        'assumptions': cfg['assumptions'],
        'wall_s': round(time.time() - t0, 2),
        'violations': len(violations),
    }
    with open(ev_path, 'w') as f:
        json.dump(ev, f, indent=1)

    if violations:
        suffix = '' if (found_input and found_input.get('found')) else ' no-failing-input-found'
        for v in violations:
            print('FAILED-OBLIGATION property=%s obligation=%s site=%s : %s' % (prop, v['obligation'] or 'builtin-safety', v['site'], v['message']))
        print('VIOLATION property=%s replay=%s%s' % (prop, replay_path, suffix))
        sys.exit(1)
    print('PASS property=%s tier=%s obligations=%d discharged=%d functions=%d wall=%.1fs' % (prop, tier, n_obl, n_dis, len(my_fns), time.time() - t0))
    sys.exit(0)


def vacuity_check(repo, bdir, report):
    """weave a second file in which every function under contract starts with `assert(false)`;
    the assertion must FAIL in every function, otherwise its preconditions (or the assumed axioms) are contradictory"""
    out = os.path.join(bdir, 'vacuity.rs')
    try:
        rep = weave.build(repo, out, vacuity=True)
    except weave.LostAnchor as e:
        return {'error': str(e)}
    res = run_verus(out, None, 20, 0)
    failed_fns = set()
    for d in res['diags']:
        if d.get('level') != 'error':
            continue
        for sp in d.get('spans', []):
            for o in rep['obligations']:
                if o['name'].startswith('vacuity.') and o['line'] <= sp['line_start'] <= o['end']:
                    failed_fns.add(o['name'][len('vacuity.'):])
    expected = [f['path'] for f in rep['functions'] if f['kind'] == 'exec']
    # (trusted functions have no body to reach)
    vacuous = [f for f in expected if f not in failed_fns]
    return {'functions_checked': len(expected), 'vacuous': vacuous, 'wall_s': round(res['wall'], 1)}


if __name__ == '__main__':
    main()
