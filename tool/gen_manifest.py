#!/usr/bin/env python3
"""(Re)generate /verif/MANIFEST.json from tool/props.py."""
import json, os, sys
HERE = os.path.dirname(os.path.abspath(__file__))
VERIF = os.path.dirname(HERE)
sys.path.insert(0, HERE)
import props as P

ALL = ['C%02d' % i for i in range(1, 21)]
checks = []
for pid in ALL:
    if pid not in P.PROPS:
        continue
    c = P.PROPS[pid]
    checks.append({
        'property_id': pid,
        'quick_cmd': 'python3 tool/check.py %s' % pid,
        'thorough_cmd': 'python3 tool/check.py %s --tier thorough' % pid,
        'evidence_file': '/verif/evidence/%s.json' % pid,
        'replay_cmd_template': 'python3 tool/replay.py --show {path}',
        'engine': 'verus-contracts',
        'level_claimed': {
            'category': 'proof',
            'text': c.get('level_text', 'Contracts woven into the functions extracted verbatim from /repo on every run; Verus discharges every obligation for all inputs, all iterations and (through representation invariants) all call histories. ') + c['explanation'],
            'design_ref': c.get('design_ref', 'DESIGN.md section 6 (%s)' % pid),
        },
        'level_note': '; '.join(c['assumptions']) + ('; BOUNDED stand-ins (not counted as proved): ' + '; '.join(c['bounded']) if c.get('bounded') else ''),
        'technique': c.get('technique', 'contract-based deductive verification (Verus) of the real functions, extracted mechanically each run'),
    })
na = [{'property_id': pid, 'reason': P.NOT_APPLICABLE.get(pid, 'check not built yet in this snapshot (work in progress)')} for pid in ALL if pid not in P.PROPS]
m = {
    'version': 1,
    'setup_cmd': 'python3 tool/weave.py --out build/setup/hoot_verus.rs',
    'hooks': {
        'guard': 'none',
        'enable': 'no source hooks in /repo: functions are extracted from /repo/src by tool/weave.py. The native twins and the Kani harnesses are added to a SCRATCH COPY of /repo at check time (tests/verif_twin.rs; `#[cfg(kani)] mod verif_kani*;` appended to src/lib.rs and src/body.rs of the copy, compiled only by cargo kani) and the copy is deleted afterwards',
        'baseline_off_cmd': 'cd /repo && cargo test --workspace --no-fail-fast --offline',
        'source_commits': [],
        'add_only': True,
    },
    'engines': [{'name': 'verus-contracts', 'path': 'tool/check.py', 'serves_properties': [c['property_id'] for c in checks],
                 'kind_free_text': 'python weaver (tool/weave.py) + contracts (contracts/*.py) + trusted preamble (preamble/*.rs) -> one Verus file per run -> Verus/Z3'}],
    'checks': checks,
    'notes': 'exit 2 from a check = inconclusive (lost anchor / rustc error in woven text / solver limit), never an alarm. known_findings.txt lists fix: commits made in /repo.',
    'not_applicable': na,
}
json.dump(m, open(os.path.join(VERIF, 'MANIFEST.json'), 'w'), indent=1)
print('MANIFEST.json: %d checks, %d not_applicable' % (len(checks), len(na)))
