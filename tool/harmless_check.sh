#!/bin/sh
# usage: harmless_check.sh <patch.diff> <name>    run all 20 quick checks against a scratch copy of /repo carrying a
# behaviour-preserving change; any exit 1 is a FALSE ALARM of the machinery (exit 0 = decided, exit 2 = inconclusive)
PATCH="$1"; NAME="$2"
D=$(mktemp -d /tmp/harmless_XXXX)
mkdir -p $D/repo && cp -r /repo/src /repo/Cargo.toml /repo/Cargo.lock $D/repo/
( cd $D/repo && git init -q . && git apply "$PATCH" ) || { echo "apply failed"; rm -rf $D; exit 2; }
for i in $(seq -w 1 20); do
  python3 /verif/tool/check.py C$i --repo $D/repo > $D/C$i.log 2>&1; rc=$?
  echo "$NAME C$i exit=$rc $(grep -E '^(VIOLATION|INCONCLUSIVE|PASS)' $D/C$i.log | head -1 | cut -c1-220)"
  if [ $rc = 1 ]; then grep -E '^FAILED-OBLIGATION' $D/C$i.log | cut -c1-260 | head -5; fi
done
rm -rf $D
