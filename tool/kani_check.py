#!/usr/bin/env python3
"""Kani BOUNDED stand-ins (kani/verif_kani.rs) run on a scratch copy of /repo; the copy and its build output are
removed before returning.  Used by the thorough tier of the properties whose chain contains the function."""
import os, sys, re, json, shutil, subprocess, tempfile, time

HERE = os.path.dirname(os.path.abspath(__file__))
VERIF = os.path.dirname(HERE)

HARNESSES = {
    'max_chunk_data_is_the_largest_fit': {'props': ['C19', 'C03'], 'function': 'body::max_chunk_data + body::hex_len',
        'bound': 'FULL usize domain; loops bounded by the operand width (unwind 18, unwinding assertions on): complete for these two functions'},
    'calculate_max_input_le_n_and_monotone': {'props': ['C18'], 'function': 'body::calculate_max_input',
        'bound': 'every n < 2^32 (loop-free): result <= n and calculate_max_input(n) <= calculate_max_input(n + 1)'},
    'calculate_max_input_is_consumed_by_the_greedy_writer': {'props': ['C18'], 'function': 'body::calculate_max_input + body::max_chunk_data',
        'bound': 'every n < 32768 (<= 4 chunks): the greedy chunk writer consumes the advertised maximum whole'},
    'compare_lowercase_ascii_against_chunked': {'props': ['C06', 'C17'], 'function': 'util::compare_lowercase_ascii',
        'bound': 'all valid UTF-8 strings of 0..=8 bytes against the constant "chunked" (the only second argument in the crate); unwind 10 with unwinding assertions'},
    'compare_lowercase_ascii_against_gzip': {'props': ['C06', 'C17'], 'function': 'util::compare_lowercase_ascii',
        'bound': 'all 4-byte valid UTF-8 strings against "gzip"; unwind 6 with unwinding assertions'},
}


def run_kani(repo, props, timeout=1500):
    names = [h for h, v in HARNESSES.items() if any(p in v['props'] for p in props) or 'ALL' in props]
    if not names:
        return {'ran': [], 'fails': [], 'built': True, 'wall_s': 0.0}
    t0 = time.time()
    tmp = tempfile.mkdtemp(prefix='verif_kani_')
    try:
        dst = os.path.join(tmp, 'repo')
        shutil.copytree(repo, dst, ignore=shutil.ignore_patterns('target', '.git'))
        # harness modules: one at the crate root, one as a child of src/body.rs (private functions)
        for host, mod in (('lib.rs', 'verif_kani'), ('body.rs', 'verif_kani_body')):
            with open(os.path.join(dst, 'src', host), 'a') as f:
                f.write('\n#[cfg(kani)]\n#[path = "%s"]\nmod %s;\n' % (os.path.join(VERIF, 'kani', mod + '.rs'), mod))
        env = dict(os.environ)
        env.update({'CARGO_NET_OFFLINE': 'true', 'CARGO_TARGET_DIR': os.path.join(tmp, 'target')})
        ran, fails, built = [], [], True
        for h in names:
            t1 = time.time()
            import signal
            pr = subprocess.Popen(['cargo', 'kani', '--harness', h, '-Z', 'concrete-playback', '--concrete-playback=print'], cwd=dst, env=env, stdout=subprocess.PIPE, stderr=subprocess.STDOUT, text=True, start_new_session=True)
            try:
                out, _ = pr.communicate(timeout=timeout)
                rc = pr.returncode
            except subprocess.TimeoutExpired:
                out, rc = 'TIMEOUT', -9
            finally:
                try:
                    os.killpg(pr.pid, signal.SIGKILL)   # cbmc is a grandchild
                except Exception:
                    pass
            ok = 'VERIFICATION:- SUCCESSFUL' in out
            failed = 'VERIFICATION:- FAILED' in out
            m = re.search(r'\*\* (\d+) of (\d+) failed', out)
            rec = {'harness': h, 'function': HARNESSES[h]['function'], 'bound': HARNESSES[h]['bound'], 'result': 'SUCCESSFUL' if ok else ('FAILED' if failed else 'INCONCLUSIVE'),
                   'checks': int(m.group(2)) if m else None, 'wall_s': round(time.time() - t1, 1),
                   'cmd': 'cargo kani --harness %s (scratch copy of %s + #[cfg(kani)] mod verif_kani = /verif/kani/verif_kani.rs)' % (h, repo)}
            if failed:
                fl = [l.strip() for l in out.splitlines() if 'Status: FAILURE' in l or 'Failed Checks' in l][:6]
                rec['failed_checks'] = fl
                # the verifier's counterexample: concrete values of the kani::any() inputs, in order of creation
                m2 = re.search(r'Concrete playback unit test.*?```\n(.*?)```', out, re.S)
                if m2:
                    rec['counterexample_values'] = re.findall(r'^\s*// (.+)$', m2.group(1), re.M)
                    rec['concrete_playback_test'] = m2.group(1)[:3000]
                fails.append(rec)
            elif not ok:
                built = False
                rec['tail'] = out[-800:]
            ran.append(rec)
        return {'ran': ran, 'fails': fails, 'built': built, 'wall_s': round(time.time() - t0, 1)}
    finally:
        shutil.rmtree(tmp, ignore_errors=True)


if __name__ == '__main__':
    props = sys.argv[1].split(',') if len(sys.argv) > 1 else ['ALL']
    r = run_kani(sys.argv[2] if len(sys.argv) > 2 else '/repo', props)
    print(json.dumps(r, indent=1))
    sys.exit(1 if r['fails'] else (2 if not r['built'] else 0))
