#!/usr/bin/env python3
"""Mutation run: how much of an expression-level change in the functions under contract do the checks notice?

For every mutant (one token changed in non-test code of /repo/src) that still COMPILES and PASSES the existing
suite, the whole woven crate is verified and all twins are run against a scratch copy carrying the mutant.
Nothing is written to /repo.  Results: one JSON line per mutant in the --out file (resumable).

This is a measurement of the machinery, not a check: it is not registered in MANIFEST.json.
"""
import os, sys, re, json, shutil, subprocess, tempfile, argparse, time

HERE = os.path.dirname(os.path.abspath(__file__))
VERIF = os.path.dirname(HERE)
sys.path.insert(0, HERE)
import rsparse, weave, check, replay

FILES = ['src/util.rs', 'src/ext.rs', 'src/chunk.rs', 'src/body.rs', 'src/parser.rs', 'src/client/amended.rs',
         'src/client/call.rs', 'src/client/holder.rs', 'src/client/flow.rs', 'src/client/mod.rs']

SWAP = {'==': '!=', '!=': '==', '&&': '||', '||': '&&', '<=': '<', '>=': '>', '+=': '-=', '-=': '+='}
SPACED = {'<': '<=', '>': '>=', '+': '-', '-': '+'}
IDENT_SWAP = {'true': 'false', 'false': 'true', 'min': 'max', 'max': 'min', 'is_some': 'is_none', 'is_none': 'is_some',
              'is_ok': 'is_err', 'is_err': 'is_ok'}


def test_start(src):
    m = re.search(r'#\[cfg\(test\)\]\s*mod\s+\w+', src)
    return m.start() if m else len(src)


def fn_at(src, pos, cache={}):
    """name of the innermost fn containing pos (text search backwards; for reporting only)"""
    head = src[:pos]
    ms = list(re.finditer(r'\bfn\s+([A-Za-z_0-9]+)', head))
    return ms[-1].group(1) if ms else '?'


def mutants_of(rel, src):
    toks = rsparse.lex(src)
    end = test_start(src)
    out = []
    sig = [t for t in toks if t.kind not in ('ws', 'comment')]
    for i, t in enumerate(sig):
        if t.start >= end:
            break
        prev = sig[i - 1] if i > 0 else None
        nxt = sig[i + 1] if i + 1 < len(sig) else None
        rep = None
        if t.kind == 'punct':
            if t.text in SWAP:
                rep = SWAP[t.text]
            elif t.text in SPACED and src[t.start - 1:t.start] == ' ' and src[t.end:t.end + 1] == ' ':
                if t.text in '<>' and nxt is not None and nxt.text == '=':
                    continue
                rep = SPACED[t.text]
            elif t.text == '!' and nxt is not None and (nxt.kind == 'ident' or nxt.text == '(') and not (prev is not None and prev.kind == 'ident') and nxt.text != '[':
                rep = ''
        elif t.kind == 'ident' and t.text in IDENT_SWAP:
            if t.text in ('min', 'max') and not (prev is not None and prev.text == '.'):
                continue
            rep = IDENT_SWAP[t.text]
        elif t.kind == 'num' and re.fullmatch(r'\d+', t.text):
            # not inside attributes / array types; literal n -> n + 1
            if prev is not None and prev.text in (';',) and nxt is not None and nxt.text == ']':
                continue
            rep = str(int(t.text) + 1)
        if rep is None:
            continue
        line = src.count('\n', 0, t.start) + 1
        # skip attributes and use lines
        ls = src.rfind('\n', 0, t.start) + 1
        ltxt = src[ls:src.find('\n', t.start)]
        if ltxt.lstrip().startswith(('#[', 'use ', '//', 'const ')) and t.kind == 'num' and 'const' not in ltxt:
            continue
        if ltxt.lstrip().startswith(('#[', 'use ')):
            continue
        if re.search(r'\b(debug|trace|warn|info)!\(', ltxt):
            continue
        out.append({'file': rel, 'line': line, 'start': t.start, 'end': t.end, 'before': t.text, 'after': rep,
                    'fn': fn_at(src, t.start), 'text': ltxt.strip()[:160]})
    return out


def run(cmd, cwd, env, timeout=900):
    import signal
    pr = subprocess.Popen(cmd, cwd=cwd, env=env, stdout=subprocess.PIPE, stderr=subprocess.STDOUT, text=True, start_new_session=True)
    try:
        out, _ = pr.communicate(timeout=timeout)
        return pr.returncode, out
    except subprocess.TimeoutExpired:
        return -9, 'TIMEOUT'
    finally:
        try:
            os.killpg(pr.pid, signal.SIGKILL)   # the test binary is a grandchild of cargo: a hung mutant must not survive
        except Exception:
            pass


def summary(out):
    known = set(k['obligation'] + '@' + (k['site'] or '?') for k in check.load_known())
    rs = [json.loads(l) for l in open(out)]
    tri = {}
    tp = os.path.join(os.path.dirname(out), 'triage.json')
    if os.path.exists(tp):
        tri = json.load(open(tp))
    sv = [r for r in rs if r['suite'] == 'survived']
    for r in sv:
        r['vf'] = [x for x in r.get('verus_failed', []) if x not in known]
        r['det'] = bool(r['vf'] or r.get('twin_failed'))
    from collections import Counter
    c = Counter(r['suite'] for r in rs)
    und = [r for r in sv if not r['det']]
    lines = ['# Mutation run over the functions of /repo/src (tool/mutate.py)', '',
             'One token changed per mutant (comparison / boolean / arithmetic operator, integer literal + 1, true/false, min/max, is_some/is_none, is_ok/is_err, dropped `!`).',
             'Mutants that do not compile or are killed by the existing unit tests are set aside; every SURVIVOR of the suite is given to the whole woven crate (Verus, quick rlimit) and to all twins (quick menus).  Known findings are not counted as detections.', '',
             '| | count |', '|---|---|',
             '| mutants generated | %d |' % len(rs), '| do not compile | %d |' % c.get('nocompile', 0),
             '| killed by the existing suite (incl. %d hangs) | %d |' % (sum(v for k, v in c.items() if 'timeout' in k), sum(v for k, v in c.items() if k.startswith('killed'))),
             '| **survive the suite** | **%d** |' % len(sv),
             '| ... reported by a failed Verus obligation | %d |' % sum(1 for r in sv if r['vf']),
             '| ... of these: Verus alone (no twin found an input) | %d |' % sum(1 for r in sv if r['vf'] and not r.get('twin_failed')),
             '| ... reported by a twin | %d |' % sum(1 for r in sv if r.get('twin_failed')),
             '| ... of these: twin alone (Verus inconclusive: lost anchor / rustc) | %d |' % sum(1 for r in sv if not r['vf'] and r.get('twin_failed')),
             '| ... **not reported** | **%d** |' % len(und), '',
             '## Survivors not reported, triaged by hand', '', '| mutant | function | line | verdict |', '|---|---|---|---|']
    for r in und:
        lines.append('| `%s` | %s | `%s` | %s |' % (r['id'], r['fn'], r['text'][:70].replace('|', '\\|'), tri.get(r['id'], 'NOT TRIAGED')))
    notes = os.path.join(os.path.dirname(out), 'NOTES.md')
    if os.path.exists(notes):
        lines += ['', open(notes).read().rstrip()]
    open(os.path.join(os.path.dirname(out), 'SUMMARY.md'), 'w').write('\n'.join(lines) + '\n')
    print('\n'.join(lines[:22]))
    return 0


def main():
    ap = argparse.ArgumentParser()
    ap.add_argument('--repo', default='/repo')
    ap.add_argument('--out', default=os.path.join(VERIF, 'mutants', 'results.jsonl'))
    ap.add_argument('--files', nargs='*', default=FILES)
    ap.add_argument('--limit', type=int, default=0)
    ap.add_argument('--stride', type=int, default=1, help='take every k-th mutant')
    ap.add_argument('--list', action='store_true')
    ap.add_argument('--summary', action='store_true', help='write mutants/SUMMARY.md from the results + mutants/triage.json')
    a = ap.parse_args()

    allm = []
    for rel in a.files:
        src = open(os.path.join(a.repo, rel), encoding='utf-8').read()
        allm += mutants_of(rel, src)
    for k, m in enumerate(allm):
        m['id'] = '%s:%d:%d:%s->%s' % (m['file'], m['line'], m['start'], m['before'], m['after'])
    allm = allm[::a.stride]
    if a.limit:
        allm = allm[:a.limit]
    if a.summary:
        return summary(a.out)
    if a.list:
        for m in allm:
            print(m['id'], '|', m['fn'], '|', m['text'])
        print(len(allm), 'mutants')
        return
    os.makedirs(os.path.dirname(a.out), exist_ok=True)
    done = set()
    if os.path.exists(a.out):
        for l in open(a.out):
            try:
                done.add(json.loads(l)['id'])
            except Exception:
                pass
    tmp = tempfile.mkdtemp(prefix='verif_mut_')
    try:
        dst = os.path.join(tmp, 'repo')
        shutil.copytree(a.repo, dst, ignore=shutil.ignore_patterns('target', '.git'))
        env = dict(os.environ)
        env.update({'CARGO_TARGET_DIR': os.path.join(tmp, 'target'), 'CARGO_NET_OFFLINE': 'true', 'RUST_BACKTRACE': '0'})
        rc, o = run(['cargo', 'test', '--offline', '--lib'], dst, env)
        if rc != 0:
            print('baseline does not pass', o[-800:])
            return 2
        woven = os.path.join(tmp, 'woven', 'hoot_verus.rs')
        for m in allm:
            if m['id'] in done:
                continue
            t0 = time.time()
            path = os.path.join(dst, m['file'])
            orig = open(path, encoding='utf-8').read()
            mut = orig[:m['start']] + m['after'] + orig[m['end']:]
            rec = dict(m)
            try:
                open(path, 'w', encoding='utf-8').write(mut)
                rc, o = run(['cargo', 'test', '--offline', '--lib'], dst, env, timeout=300)
                if rc != 0:
                    rec['suite'] = 'nocompile' if ('error[' in o or 'error:' in o and 'test result' not in o) else 'killed'
                    if rc == -9:
                        rec['suite'] = 'killed(timeout)'
                else:
                    rec['suite'] = 'survived'
                    # verifier
                    try:
                        report = weave.build(dst, woven)
                        res = check.run_verus(woven, None, 150, 1)
                        failures, inconclusive = check.classify(res, report)
                        known = set((k['obligation'], k['site']) for k in check.load_known())
                        rec['verus_failed'] = sorted(set((f['obligation'] or 'builtin-safety') + '@' + (f['site'] or '?') for f in failures
                                                         if (f['obligation'], f['site']) not in known))
                        rec['verus_inconclusive'] = inconclusive[:200] if inconclusive else None
                    except weave.LostAnchor as e:
                        rec['verus_failed'] = []
                        rec['verus_inconclusive'] = 'weave: %s' % str(e)[:200]
                    # twins (own scratch copy of the mutated copy)
                    tw = replay.run_twins(dst, ['ALL'], 'quick')
                    rec['twin_failed'] = sorted(set(f['name'] for f in tw['fails']))
                    rec['twin_built'] = tw['built']
                    rec['detected'] = bool(rec['verus_failed'] or rec['twin_failed'])
            finally:
                open(path, 'w', encoding='utf-8').write(orig)
            rec['wall_s'] = round(time.time() - t0, 1)
            with open(a.out, 'a') as f:
                f.write(json.dumps(rec) + '\n')
            print(rec['id'], rec['suite'], 'DETECTED' if rec.get('detected') else ('UNDETECTED' if rec['suite'] == 'survived' else ''), rec['wall_s'], flush=True)
    finally:
        shutil.rmtree(tmp, ignore_errors=True)


if __name__ == '__main__':
    sys.exit(main() or 0)
