"""Per-property configuration of the contract checks: which woven modules carry the
property's obligation chain, what is assumed, what is bounded."""

WRITER_MODEL = ('std::io::Cursor<&mut [u8]> is replaced by a 2-field model (position + buffer); '
                'Write::write_all on it is an assumed contract: appends the bytes iff they fit, on failure only a prefix was added; '
                'byte-exact final buffer contents are tracked through the &mut borrow by Verus prophecy variables')
FMT = 'write!() format strings are replaced by stubs with assumed contracts (rule N4): "{:0x?}" of usize = lower-case hex without padding, "{}" of Method/HeaderName and "{:?}" of Version = uninterpreted byte strings'
VERUS = 'soundness of Verus 0.2026.09.13 + Z3, of rustc front end, and of the normalisation rules N1-N14 listed in DESIGN.md 4.2 (each application is logged in the evidence)'
USIZE = 'usize is 64 bit; machine arithmetic is modelled exactly (overflow is an obligation); one axiom: slice length <= usize::MAX'
HTTP = 'the `http` crate (Method, Version, StatusCode, HeaderName/Value, HeaderMap, Request/Response builders, Uri) is a set of stubs with assumed contracts (preamble/10_http.rs)'
HTTPARSE = 'httparse::Response/Request::parse is an assumed contract (DESIGN.md 5.2); what httparse accepts is not verified'
STR = 'core::str::from_utf8, str::trim, usize::from_str_radix, str::parse::<u64>, HeaderValue::to_str are assumed contracts over uninterpreted/explicit byte specs'

PROPS = {
    'C03': {
        'modules': ['util', 'body'],
        'explanation': 'write_chunk / BodyWriter::{write,finish} extracted verbatim and verified against: every data write appends a sequence of complete non-empty chunks whose data equals the consumed input (existential witness built as ghost state in the loop); the terminator is emitted only by an empty write, at most once, and ended <=> terminator completely emitted; guards in Call<WithBody>::write (refusal after finish) and Flow<SendBody> transport it.',
        'assumptions': [VERUS, USIZE, WRITER_MODEL, FMT, 'byte-string literal b"0\\r\\n\\r\\n" denotes its bytes (N14)'],
    },
    'C04': {
        'modules': ['util', 'body'],
        'explanation': 'Sized branch of BodyWriter::write verified against min(input, space, remaining) copy-through with exact countdown; consume_direct_write accounting; refusal guards in Call<WithBody>::write.',
        'assumptions': [VERUS, USIZE, WRITER_MODEL],
    },
    'C18': {
        'modules': ['util', 'body'],
        'explanation': 'calculate_max_input has its closed form as postcondition; BodyWriter::write in chunked mode returns exactly cc(len, avail) (greedy largest-fitting chunks); lemma_max_input_fits proves by induction, for every n and every l <= max_input(n), cc(l, n) == l; lemma_max_input_le_and_monotone gives <= n and monotone.',
        'assumptions': [VERUS, USIZE, WRITER_MODEL, FMT],
    },
    'C19': {
        'modules': ['util', 'body'],
        'explanation': 'max_chunk_data verified to return the largest data length whose chunk fits; lemma_cc_progress (>= 1 byte with >= 6 bytes of room, >= min(len, advertised max)) and lemma_cc_monotone (more input never less progress) over the exact consumed-count postcondition of BodyWriter::write; termination of the chunk loop by decreases.',
        'assumptions': [VERUS, USIZE, WRITER_MODEL, FMT],
    },
}
NOT_APPLICABLE = {}
