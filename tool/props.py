"""Per-property configuration of the contract checks: which woven modules carry the
property's obligation chain, what is assumed, what is bounded."""

WRITER_MODEL = ('std::io::Cursor<&mut [u8]> is replaced by a 2-field model (position + buffer); '
                'Write::write_all on it is an assumed contract: appends the bytes iff they fit, on failure only a prefix was added; '
                'byte-exact final buffer contents are tracked through the &mut borrow by Verus prophecy variables')
FMT = 'write!() format strings are replaced by stubs with assumed contracts (rule N4): "{:0x?}" of usize = lower-case hex without padding, "{}" of Method/HeaderName and "{:?}" of Version = uninterpreted byte strings'
VERUS = 'soundness of Verus 0.2026.09.13 + Z3, of rustc front end, and of the normalisation rules N1-N14 listed in DESIGN.md 4.2 (each application is logged in the evidence)'
USIZE = 'usize is 64 bit; machine arithmetic is modelled exactly (overflow is an obligation); one axiom: slice length <= usize::MAX'
HTTP = 'the `http` crate (Method, Version, StatusCode, HeaderName/Value, HeaderMap, Request/Response builders, Uri) is a set of stubs with assumed contracts (preamble/10_http.rs)'
HTTPARSE = 'httparse::Response/Request::parse is an assumed contract (DESIGN.md 5.2); what httparse accepts is not verified'
STR = 'core::str::from_utf8, str::trim, usize::from_str_radix, str::parse::<u64>, HeaderValue::to_str are assumed contracts over uninterpreted/explicit byte specs'

PROPS = {
    'C03': {
        'modules': ['util', 'body'],
        'explanation': 'write_chunk / BodyWriter::{write,finish} extracted verbatim and verified against: every data write appends a sequence of complete non-empty chunks whose data equals the consumed input (existential witness built as ghost state in the loop); the terminator is emitted only by an empty write, at most once, and ended <=> terminator completely emitted; guards in Call<WithBody>::write (refusal after finish) and Flow<SendBody> transport it.',
        'assumptions': [VERUS, USIZE, WRITER_MODEL, FMT, 'byte-string literal b"0\\r\\n\\r\\n" denotes its bytes (N14)'],
    },
    'C04': {
        'modules': ['util', 'body'],
        'explanation': 'Sized branch of BodyWriter::write verified against min(input, space, remaining) copy-through with exact countdown; consume_direct_write accounting; refusal guards in Call<WithBody>::write.',
        'assumptions': [VERUS, USIZE, WRITER_MODEL],
    },
    'C18': {
        'modules': ['util', 'body'],
        'explanation': 'calculate_max_input has its closed form as postcondition; BodyWriter::write in chunked mode returns exactly cc(len, avail) (greedy largest-fitting chunks); lemma_max_input_fits proves by induction, for every n and every l <= max_input(n), cc(l, n) == l; lemma_max_input_le_and_monotone gives <= n and monotone.',
        'assumptions': [VERUS, USIZE, WRITER_MODEL, FMT],
    },
    'C19': {
        'modules': ['util', 'body'],
        'explanation': 'max_chunk_data verified to return the largest data length whose chunk fits; lemma_cc_progress (>= 1 byte with >= 6 bytes of room, >= min(len, advertised max)) and lemma_cc_monotone (more input never less progress) over the exact consumed-count postcondition of BodyWriter::write; termination of the chunk loop by decreases.',
        'assumptions': [VERUS, USIZE, WRITER_MODEL, FMT],
    },
    'C06': {
        'modules': ['util', 'chunk', 'body'],
        'explanation': 'BodyReader::for_response / header_defined extracted verbatim and verified against the spec function `framing` written from the property (RFC 9112 6.3) for every method, every u16 status, both versions and every header situation; body_mode reports the framing.',
        'assumptions': [VERUS, HTTP, STR, 'te_declares_chunked(value) (the split/trim/any pipeline over the Transfer-Encoding value, rule N9) is uninterpreted', 'the header lookup closure is a deterministic function of the name'],
        'bounded': ['Transfer-Encoding list expression: native exhaustive run over the C06 menu (replay/tests)'],
    },
    'C07': {
        'modules': ['util', 'chunk', 'body'],
        'explanation': 'all of chunk.rs and BodyReader::read_chunked verified: each state handler step-exact against the chunked grammar token it consumes (size line incl. extension and hex value, data copy = min of three, CRLF, trailer line, final CRLF); parse_input / read_chunked: counts in bounds, produced bytes are a subsequence in order of the consumed ones, one call of parse_input (and one read with boundary stopping) produces ONE contiguous piece of the input (never data of two chunks), an ended decoder consumes nothing, termination. NOT proved: the composition lemma over a whole coding witness (total output == payload, total consumed == |coding|); see DESIGN.md.',
        'assumptions': [VERUS, USIZE, STR, 'Iterator::position / take (rule N9 stubs slice_position, slice_take_position)'],
        'bounded': ['whole-coding composition (payload equality, exact consumption, ended-iff) : native small-scope grammar run'],
    },
    'C08': {
        'modules': ['util', 'chunk', 'body'],
        'explanation': 'read_limit: exactly min(input, space, remaining) bytes copied unchanged, countdown exact, rest of the output untouched; read_unlimit: min(input, space) passthrough; is_ended <=> remaining == 0 / never for close-delimited.',
        'assumptions': [VERUS, USIZE],
    },
    'C20': {
        'modules': ['parser'],
        'explanation': 'try_parse_response / try_parse_partial_response / try_parse_request verified to be exact functions of the (assumed, uninterpreted) httparse outcome: Complete(n) -> (n, message with exactly the parsed version, status/method and fields), Partial -> None, TooManyHeaders -> HttpParseTooManyHeaders, no panic (builder errors mapped); the partial parser reports only the completely received fields up to the first empty value and never fails before the status line is complete.',
        'assumptions': [VERUS, HTTP, HTTPARSE, 'well-formed-head axioms on httparse (axiom_wellformed_response*) are exercised only by the bounded conformance run'],
        'bounded': ['httparse conformance on generated heads x every prefix'],
    },
}
NOT_APPLICABLE = {}
