"""Per-property configuration of the contract checks: which woven modules carry the
property's obligation chain, what is assumed, what is bounded."""

WRITER_MODEL = ('std::io::Cursor<&mut [u8]> is replaced by a 2-field model (position + buffer); '
                'Write::write_all on it is an assumed contract: appends the bytes iff they fit, on failure only a prefix was added; '
                'byte-exact final buffer contents are tracked through the &mut borrow by Verus prophecy variables')
FMT = 'write!() format strings are replaced by stubs with assumed contracts (rule N4): "{:0x?}" of usize = lower-case hex without padding, "{}" of Method/HeaderName and "{:?}" of Version = uninterpreted byte strings'
VERUS = 'soundness of Verus 0.2026.09.13 + Z3, of rustc front end, and of the normalisation rules N1-N14 listed in DESIGN.md 4.2 (each application is logged in the evidence)'
USIZE = 'usize is 64 bit; machine arithmetic is modelled exactly (overflow is an obligation); one axiom: slice length <= usize::MAX'
HTTP = 'the `http` crate (Method, Version, StatusCode, HeaderName/Value, HeaderMap, Request/Response builders, Uri) is a set of stubs with assumed contracts (preamble/10_http.rs)'
HTTPARSE = 'httparse::Response/Request::parse is an assumed contract (DESIGN.md 5.2); what httparse accepts is not verified'
STR = 'core::str::from_utf8, str::trim, usize::from_str_radix, str::parse::<u64>, HeaderValue::to_str are assumed contracts over uninterpreted/explicit byte specs'


ITER = 'iterator-adapter pipelines of hoot (AmendedRequest::headers / headers_len, HeaderIterExt::has, split/trim/any over Transfer-Encoding, headers_get_all(..).count()/filter_map/any) are replaced by stubs with assumed contracts (rule N9) and exercised by the bounded native run only'
URL = 'url::Url::parse / join (RFC 3986 resolution) and Uri parsing are uninterpreted functions (preamble/30_url.rs)'
PRE = 'documented call-order preconditions: try_read_100 only while still awaiting, Flow<RecvResponse>::try_response not called again after it returned the final response, at most 61 caller-added headers, the request can name its host (absolute URI or Host header)'
LIT = 'facts about string literals (axiom_literals*, e.g. lower("Host") == "host") are trusted axioms'

M_BODYW = ['util', 'body', 'client::call', 'client::flow']
M_BODYR = ['util', 'chunk', 'body', 'client::call', 'client::flow']
M_CODING = M_BODYR + ['coding']
M_HEAD = ['util', 'body', 'ext', 'client::amended', 'client::call', 'client::flow']

PROPS = {
    'C01': {
        'modules': ['util', 'chunk', 'body', 'parser', 'client::call', 'client::flow', 'lemmas', 'coding'],
        'explanation': 'Corollary of the step contracts: every resumable step is verified against a schedule-free spec function of its own resumable state (head_step for the head writer: remaining-head == emitted ++ remaining-head\'; post_write_body for body writes; exact-mapping contracts for the head parsers; min3 / passthrough copies for the readers), so two schedules cannot disagree; composition lemmas are proved by induction over arbitrary call lists: head (lemma_head_schedule_independent), Content-Length request body (lemma_sized_history), Content-Length response body (lemma_len_history), chunked response body (coding::lemma_chunked_history), close-reason trace (lemma_close_trace); read-only queries are proved to leave the flow unchanged. chunked request body (lemma_chunked_writes_history). NOT proved: anything about what httparse accepts (the response head is an uninterpreted function of the bytes, so schedule independence of the head holds by construction of the contract, not by a proof about httparse).',
        'assumptions': [VERUS, USIZE, WRITER_MODEL, FMT, HTTP, HTTPARSE, ITER, PRE],
        'bounded': ['whole-exchange schedules (twins of C02, C03, C04, C05, C07, C08)'],
        # C01 is a corollary: its argument rests on the exactness obligations of these properties in the functions of its chain
        'depends_on': ['C02', 'C03', 'C04', 'C05', 'C07', 'C08', 'C10'],
    },
    'C02': {
        'modules': M_HEAD,
        'explanation': 'do_write_send_line / do_write_headers / try_write_prelude_part / try_write_prelude / Call::write / Flow<SendRequest>::write extracted verbatim and verified: each call appends whole lines only, exactly the next lines of spec_head (head_step: remaining == emitted ++ remaining\'), stops only when the next line does not fit (maximal), fails with OutputOverflow iff not even the next line fits and then nothing changes, emits nothing once complete; request line from the EFFECTIVE uri; analyze_request verified to append Host (from the effective uri) exactly when absent and exactly the framing header matching the body writer mode.',
        'assumptions': [VERUS, USIZE, WRITER_MODEL, FMT, HTTP, ITER, LIT, PRE],
        'bounded': ['AmendedRequest::headers()/headers_len() against eff_headers = added ++ (original minus unset): native exhaustive run'],
    },
    'C03': {
        'modules': M_BODYW + ['lemmas'],
        'explanation': 'write_chunk / BodyWriter::{write,finish} extracted verbatim and verified against: every data write appends a sequence of complete non-empty chunks whose data equals the consumed input (existential witness built as ghost state in the loop); the terminator is emitted only by an empty write, at most once, and ended <=> terminator completely emitted; Call<WithBody>::write refuses data after finish without any effect; Flow<SendBody>::{write,can_proceed} transport it; lemmas::lemma_chunked_writes_history: over ANY list of data writes the wire is a chunk stream of exactly the concatenated consumed input (induction; chunk encodings concatenate).',
        'assumptions': [VERUS, USIZE, WRITER_MODEL, FMT, 'byte-string literal b"0\\r\\n\\r\\n" denotes its bytes (N14)'],
    },
    'C04': {
        'modules': M_BODYW + ['lemmas'],
        'explanation': 'Sized branch of BodyWriter::write verified against min(input, space, remaining) copy-through with exact countdown; consume_direct_write accounting at both layers; Call<WithBody>::write refuses overshoot and writes after the end with *final == *old; finished flag <=> remaining == 0 after a write; lemmas::lemma_sized_history: over ANY list of accepted writes the wire bytes equal the consumed bytes, the total never exceeds N and remaining == N - total (induction over the list).',
        'assumptions': [VERUS, USIZE, WRITER_MODEL],
    },
    'C05': {
        'modules': ['parser', 'client::call', 'client::flow', 'head_lemmas'],
        'explanation': 'try_parse_response is an exact function of the httparse outcome; Call<RecvResponse>::try_response: Complete(n) -> exactly n consumed and a response carrying exactly the parsed version/status/fields, Partial -> need-more-data with no state change and never an error for well-formed prefixes, TooManyHeaders at 128; Flow::try_response transports it. The partial-redirect work-around is a KNOWN FINDING (KF2): its obligation is split off and listed. head_lemmas::lemma_c05_head_or_more / lemma_c05_strict_prefix / lemma_c05_not_a_partial_redirect then derive the PROPERTY STATEMENT for every well-formed head (rendered by the spec function render_head from version, status, reason, fields with optional white space) followed by any bytes and for every strict prefix, from those postconditions plus the assumed axioms on httparse.',
        'assumptions': [VERUS, HTTP, HTTPARSE, LIT, PRE, 'axiom_wellformed_response / axiom_wellformed_response_prefix (preamble/20_httparse.rs): what httparse answers on a well-formed head and on its prefixes is ASSUMED (exercised by the bounded conformance twin), not proved'],
        'bounded': ['httparse conformance on generated heads x every prefix'],
    },
    'C06': {
        'modules': M_BODYR,
        'explanation': 'BodyReader::for_response / header_defined extracted verbatim and verified against the spec function `framing` written from the property (RFC 9112 6.3) for every method, every u16 status, both versions and every header situation; Call::try_response sets the reader from the response\'s own first textual Content-Length / Transfer-Encoding; need_response_body / into_body / Flow<RecvResponse>::proceed select body / redirect / cleanup exactly by the rule.',
        'assumptions': [VERUS, HTTP, STR, 'te_declares_chunked(value) (the split/trim/any pipeline over the Transfer-Encoding value, rule N9) is uninterpreted', LIT],
        'bounded': ['Transfer-Encoding list expression: native exhaustive run over the C06 menu',
                    'util::compare_lowercase_ascii (trusted in Verus): Kani harnesses kani/verif_kani.rs on the real function, all valid UTF-8 strings of 0..=8 bytes against "chunked" (thorough tier)'],
    },
    'C07': {
        'modules': M_CODING,
        'explanation': 'all of chunk.rs and BodyReader::read_chunked verified: each state handler step-exact against the chunked grammar token it consumes; parse_input and read_chunked are proved to be EXACTLY the spec-level interpreters spec_parse / spec_read (functions of decoder state, window, room, boundary stop); module `coding` then proves, purely over those interpreters, for ANY valid coding (token witness: size lines <= 20 bytes without CR whose hex part denotes the data length, data, CRLFs, last-chunk line, trailer lines, final CRLF) followed by anything, ANY arrival schedule and ANY output sizes (lemma_chunked_history, by induction over the list of reads): no read fails, the outputs concatenate to a prefix of the payload and to exactly the payload at the end, the consumed total never exceeds the coding and is the decoder position, ended <=> the whole coding incl. its final CRLF was consumed, and with boundary stopping no single read spans two chunks. lemma_coding_witness shows the validity predicate is inhabited. For ARBITRARY bytes: counts, copy-in-order (lemma_parse_basic / lemma_read_basic), termination, decoder state well-formed even on error.',
        'assumptions': [VERUS, USIZE, STR, 'Iterator::position / take (rule N9 stubs slice_position, slice_take_position)', 'the schedule model of lemma_chunked_history: the caller re-presents unconsumed bytes (each window starts at the bytes consumed so far), as the property states'],
        'bounded': ['the same statement exercised natively over a small-scope grammar x cuts x buffer sizes (regression / replay only)'],
    },
    'C08': {
        'modules': M_BODYR + ['lemmas'],
        'explanation': 'read_limit: exactly min(input, space, remaining) bytes copied unchanged, countdown exact, rest of the output untouched; read_unlimit: min(input, space) passthrough; is_ended <=> remaining == 0 / never for close-delimited; Flow<RecvBody>::can_proceed true for close-delimited at any time; Flow<RecvResponse>::proceed appends CloseDelimitedBody exactly for a close-delimited body; lemmas::lemma_len_history: over ANY arrival / buffer schedule the reads deliver exactly stream[0..pos], never beyond N (induction over the list of reads).',
        'assumptions': [VERUS, USIZE],
    },
    'C09': {
        'modules': ['client::holder', 'client::call', 'client::flow'],
        'explanation': 'typestate invariants wf_prepare / wf_sending / wf_await100 / wf_send_body / wf_recv_response / wf_received / wf_redirect on Inner; every public method of every Flow state requires the invariant of its state and re-establishes it (or the invariant of the successor state) => by induction all call histories; every unreachable!(), unwrap() and holder accessor is proved safe from the invariant; can_proceed() == (proceed() returns Some) in every state; successor variant == the documented graph. KNOWN FINDING KF1: a second as_new_flow() on a second-hop redirect flow panics.',
        'assumptions': [VERUS, HTTP, PRE, ITER],
    },
    'C10': {
        'modules': ['ext', 'util', 'body', 'client::call', 'client::flow', 'lemmas'],
        # "the response body was close-delimited" is decided by the framing rules: the verdict rests on these C06 obligations
        'depends_on': ['C06.reader_set_by_the_rules', 'C06.mode_table', 'C06/C09.into_body'],
        'explanation': 'append-or-frame postcondition on every function of flow.rs: Flow::new records Http10 / ClientConnectionClose exactly, try_read_100 appends Not100Continue exactly on a non-100 decision, try_response appends ServerConnectionClose iff the returned response has connection: close, RecvResponse::proceed appends CloseDelimitedBody iff a close-delimited body follows, everything else leaves the list unchanged; must_close_connection == list non-empty and close_reason explains list[0], identically in Redirect and Cleanup; capacity 5 proved sufficient from the per-state bounds; lemma_close_trace composes them.',
        'assumptions': [VERUS, HTTP, 'HeaderIterExt::has = exists field with that name (case-insensitive) and exactly that value (N9 stub headers_has)', LIT, PRE],
        'bounded': ['headers_has against http::HeaderMap: native run'],
    },
    'C11': {
        'modules': ['parser', 'client::call', 'client::flow', 'head_lemmas'],
        'explanation': 'Flow<Await100>::try_read_100 verified exactly against the zero-capacity httparse outcome: Partial -> nothing decided/consumed; complete bare 100 -> consumed exactly, body still due; other status or any fields -> nothing consumed, body never sent, Not100Continue recorded; Await100::proceed -> SendBody iff body still due, else a RecvResponse flow whose held call was converted (wf_recv_response); late 100 skipped exactly once in Flow<RecvResponse>::try_response; a 100 does not set the body reader. head_lemmas::lemma_c11_complete_head / lemma_c11_undecided_prefix derive the property statement for every well-formed server head (bare 100 with any reason phrase; every other status; heads with fields) and every undecided prefix from that postcondition plus the assumed httparse axioms.',
        'assumptions': [VERUS, HTTP, HTTPARSE, PRE, 'axiom_wellformed_response / axiom_wellformed_response_prefix at capacity 0 (ASSUMED; bounded conformance twin)'],
        'bounded': ['httparse conformance (shared with C05)'],
    },
    'C12': {
        # "state-advancing calls made afterwards do not panic either": the proceed() of the server-facing states rest on the
        # C09 readiness / successor clauses of the functions on C12's chain (Await100 / RecvResponse / RecvBody proceed + can_proceed)
        'depends_on': ['C09'],
        'modules': ['util', 'chunk', 'body', 'parser', 'client::call', 'client::flow'],
        'explanation': 'panic-freedom (index, slice, overflow, unwrap/expect, unreachable!, assert!, ArrayVec::push capacity) of every server-facing function with NO precondition on the byte arguments; counts within bounds; produced bytes are a subsequence in order of consumed ones; errors leave the state unchanged (and the chunk decoder well-formed); termination by decreases clauses.',
        'assumptions': [VERUS, USIZE, HTTP, HTTPARSE, STR, PRE],
    },
    'C13': {
        'modules': ['client::amended', 'client::flow'],
        'explanation': 'Flow<Redirect>::as_new_flow verified: the next request is rebuilt from the ORIGINAL request (headers, version, original uri), nothing caller-added is carried over, unset list == [authorization unless may_keep_auth(policy, ORIGINAL uri, target)] ++ [cookie, content-length, host]; can_redirect_auth_header verified == same host && (same scheme || target https); with eff_headers = added ++ (original minus unset) this gives the wire statement at every hop (the contract is universally quantified over the flow it is called on).',
        'assumptions': [VERUS, HTTP, URL, ITER, LIT, 'Option<&str>/Option<&Scheme> equality stubs (N9)'],
        'bounded': ['AmendedRequest::headers() (shared with C02)'],
    },
    'C14': {
        'modules': ['client::amended', 'client::call', 'client::flow'],
        'explanation': 'Flow::try_response stores the LAST Location value; as_new_flow resolves it with new_uri_from_location against the CURRENT effective uri (override wins) and installs the result as override; errors (missing / non-text / unresolvable / unparsable) are Err without state change, never a panic; prelude() takes path-and-query from the effective uri; analyze_request derives Host from the effective uri, the inherited Host is always unset.',
        'assumptions': [VERUS, HTTP, URL, LIT],
        'bounded': ['url / Uri conformance on the Location menu'],
    },
    'C15': {
        'modules': ['ext', 'client::flow'],
        'explanation': 'as_new_flow verified against the spec function redirect_method written from the property for every status and every method incl. extension methods; is_redirect_retaining_status == 307|308; Inner::is_redirect == 3xx && != 304; Redirect state entered exactly then (both proceed functions) and status() reports it.',
        'assumptions': [VERUS, HTTP],
    },
    'C16': {
        # every caller-added header reaches the wire THROUGH the head writer: C16 rests on C02's obligations in the functions of its chain
        'depends_on': ['C02'],
        'modules': ['client::amended', 'client::call', 'client::flow'],
        'explanation': 'Flow<Prepare>::header appends to the added list (assumed contract of set_header, generic TryFrom signature); as_new_flow yields an empty added list and an unset list that affects only the original headers (spec eff_headers = added ++ (original minus unset)); the proved head writer emits eff_headers in order. The function that decides the property on the wire - the iterator in AmendedRequest::headers() - is outside Verus; its assumed contract is checked by the bounded native run.',
        'assumptions': [VERUS, HTTP, ITER, WRITER_MODEL, FMT],
        'bounded': ['AmendedRequest::headers()/headers_len(): native exhaustive run (<= 3 added x <= 3 original over the name menu x unset subsets)'],
        'level_text': 'proof for the chain (header -> added list -> proved head writer) + BOUNDED component for AmendedRequest::headers(); ',
    },
    'C17': {
        'modules': ['ext', 'client::amended', 'client::call', 'client::flow'],
        'explanation': 'verify_version verified == spec_verify_version; AmendedRequest::analyze verified == spec_analyze (classes in the documented order, Ok iff no class applies - both directions); analyze_request: on Err *final == *old (not cached); Call::write (both flavours) and Flow<SendRequest>::write: a rejected request leaves flow and output buffer untouched; with_body on a bodiless method = wanted mode chunked => MethodForbidsBody.',
        'assumptions': [VERUS, HTTP, STR, ITER, LIT],
        'bounded': ['headers_get_all/headers_get pipelines (shared with C02)',
                    'util::compare_lowercase_ascii (trusted in Verus): Kani harnesses on the real function (thorough tier)'],
    },
    'C18': {
        'modules': M_BODYW,
        'explanation': 'calculate_max_input has its closed form as postcondition; BodyWriter::write in chunked mode returns exactly cc(len, avail) (greedy largest-fitting chunks); lemma_max_input_fits proves by induction, for every n and every l <= max_input(n), cc(l, n) == l; lemma_max_input_le_and_monotone gives <= n and monotone; Flow<SendBody>::calculate_max_input is the identity for Content-Length bodies and read-only.',
        'assumptions': [VERUS, USIZE, WRITER_MODEL, FMT],
        'bounded': ['Kani (thorough tier, and as counterexample search when an obligation fails): body::calculate_max_input against its closed form for every n < 2^32 on the real function (kani/verif_kani_body.rs)'],
    },
    'C19': {
        'modules': M_BODYW,
        'explanation': 'max_chunk_data verified to return the largest data length whose chunk fits; lemma_cc_progress (>= 1 byte with >= 6 bytes of room, >= min(len, advertised max)) and lemma_cc_monotone (more input never less progress) over the exact consumed-count postcondition of BodyWriter::write; Sized: min3 copy; termination of the chunk loop by decreases.',
        'assumptions': [VERUS, USIZE, WRITER_MODEL, FMT],
        'bounded': ['Kani (thorough tier, and as counterexample search when an obligation fails): body::hex_len against an independent digit count and body::max_chunk_data = largest fitting chunk, FULL usize domain on the real functions (kani/verif_kani_body.rs)'],
    },
    'C20': {
        'modules': ['parser', 'head_lemmas'],
        'explanation': 'try_parse_response / try_parse_partial_response / try_parse_request verified to be exact functions of the (assumed, uninterpreted) httparse outcome: Complete(n) -> (n, message with exactly the parsed version, status/method and fields), Partial -> None, TooManyHeaders -> HttpParseTooManyHeaders, no panic (builder errors mapped); the partial parser reports only the completely received fields up to the first empty value and never fails before the status line is complete. head_lemmas::lemma_c20_response_parser / lemma_c20_response_prefix / lemma_c20_partial_parser / lemma_c20_request_parser / lemma_c20_request_prefix derive the property statement (round trip of every well-formed head followed by any bytes, "incomplete" on every strict prefix within the limit, too-many-headers exactly beyond the limit, partial parser reports only completely present fields and never fails) for all heads, limits and prefixes from those postconditions plus the assumed httparse axioms.',
        'assumptions': [VERUS, HTTP, HTTPARSE, 'well-formed-head axioms on httparse (axiom_wellformed_response*, axiom_wellformed_request*) are ASSUMED and exercised only by the bounded conformance run'],
        'bounded': ['httparse conformance on generated heads x every prefix'],
    },
}
NOT_APPLICABLE = {}
