#!/usr/bin/env python3
"""Native executable twins (replay/twin.rs) run on a scratch copy of /repo.

Two uses, both BOUNDED and never counted as proof:
  * replay search after a failed obligation: find a concrete failing input on the real code;
  * bounded stand-ins for the assumed contracts of code that stays outside the verifier.

The scratch copy and its build output live under a fresh temporary directory and are removed
before this module returns.
"""
import os, sys, re, json, shutil, subprocess, tempfile, time

HERE = os.path.dirname(os.path.abspath(__file__))
VERIF = os.path.dirname(HERE)


def run_twins(repo, props, tier='quick', timeout=None):
    # every twin has its own watchdog inside twin.rs (300 s quick / 1800 s thorough); this outer limit only guards the build
    if timeout is None:
        timeout = 4500 if tier == 'quick' else 9000
    t0 = time.time()
    tmp = tempfile.mkdtemp(prefix='verif_twin_')
    try:
        dst = os.path.join(tmp, 'repo')
        shutil.copytree(repo, dst, ignore=shutil.ignore_patterns('target', '.git'))
        os.makedirs(os.path.join(dst, 'tests'), exist_ok=True)
        shutil.copy(os.path.join(VERIF, 'replay', 'twin.rs'), os.path.join(dst, 'tests', 'verif_twin.rs'))
        env = dict(os.environ)
        env.update({'CARGO_TARGET_DIR': os.path.join(tmp, 'target'), 'VERIF_TWIN': ','.join(props), 'VERIF_TIER': tier,
                    'CARGO_NET_OFFLINE': 'true', 'RUST_BACKTRACE': '0'})
        cmd = ['cargo', 'test', '--offline', '--test', 'verif_twin', '--', '--nocapture']
        # own process group: on a time-out the test binary (a grandchild of cargo) must die too, a hung library call
        # would otherwise keep spinning after this function returned
        import signal
        pr = subprocess.Popen(cmd, cwd=dst, env=env, stdout=subprocess.PIPE, stderr=subprocess.STDOUT, text=True, start_new_session=True)
        try:
            out, _ = pr.communicate(timeout=timeout)
            rc = pr.returncode
        except subprocess.TimeoutExpired:
            try:
                os.killpg(pr.pid, signal.SIGKILL)
            except Exception:
                pass
            try:
                out, _ = pr.communicate(timeout=30)
            except Exception:
                out = ''
            rc = -9
        finally:
            try:
                os.killpg(pr.pid, signal.SIGKILL)
            except Exception:
                pass
        twins = []
        fails = []
        for line in out.splitlines():
            m = re.match(r'TWIN (\S+) (\S+) evaluations=(\d+) distinct=(\d+) ms=(\d+)', line)
            if m:
                twins.append({'properties': m.group(1).split('+'), 'name': m.group(2), 'evaluations': int(m.group(3)), 'distinct': int(m.group(4)), 'ms': int(m.group(5))})
            m = re.match(r'TWIN-FAIL (\S+) (\S+) (.*)', line)
            if m:
                ps = m.group(1).split('+')
                # a message that starts with "[C13]" / "[C14,C15]" belongs to those properties only (a twin may serve several);
                # C01 (the corollary property) keeps every failure of the twins it shares
                tag = re.match(r'\[(C\d\d(?:,C\d\d)*)\]', m.group(3))
                if tag:
                    named = tag.group(1).split(',')
                    ps = [x for x in ps if x in named or x == 'C01']
                fails.append({'properties': ps, 'name': m.group(2), 'failing_input': m.group(3)})
        built = ('TWIN' in out) or rc == 0
        return {'cmd': 'VERIF_TWIN=%s VERIF_TIER=%s cargo test --offline --test verif_twin -- --nocapture  (scratch copy of %s, tests/verif_twin.rs = /verif/replay/twin.rs)' % (','.join(props), tier, repo),
                'rc': rc, 'built': built, 'twins': twins, 'fails': fails, 'wall_s': round(time.time() - t0, 1),
                'tail': '' if built else out[-1500:]}
    finally:
        shutil.rmtree(tmp, ignore_errors=True)


def search(prop, repo, violations, tier='quick'):
    """replay search for a failed obligation of `prop`"""
    res = run_twins(repo, [prop], tier)
    if not res['built']:
        return {'found': False, 'note': 'twin harness did not build against this tree (public API changed?)', 'tail': res['tail']}
    if res['fails']:
        f = res['fails'][0]
        return {'found': True, 'twin': f['name'], 'failing_input': f['failing_input'], 'reproduce': res['cmd']}
    return {'found': False, 'note': 'small-scope search over the public API found no failing input',
            'searched': [{'twin': t['name'], 'evaluations': t['evaluations']} for t in res['twins']], 'reproduce': res['cmd']}


if __name__ == '__main__':
    if len(sys.argv) >= 3 and sys.argv[1] == '--show':
        print(open(sys.argv[2]).read())
        sys.exit(0)
    props = sys.argv[1].split(',') if len(sys.argv) > 1 else ['ALL']
    r = run_twins('/repo', props, os.environ.get('VERIF_TIER', 'quick'))
    print(json.dumps(r, indent=1))
    sys.exit(1 if r['fails'] or not r['built'] else 0)
