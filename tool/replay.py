"""Replay search: native small-scope search on a scratch copy of /repo for an input that
falsifies the executable twin of a property.  Best effort; never changes a verdict."""


def search(prop, repo, violations):
    return {'found': False, 'note': 'no executable twin registered for %s yet' % prop}
