"""Minimal Rust lexer + item finder, enough to cut whole items out of /repo/src.

Not a parser: it recognises comments, string/char literals, lifetimes,
identifiers, punctuation and bracket nesting, which is what is needed to find
the text range of an item and the pieces of a function (signature, body,
loops).  Everything extracted is copied verbatim from the source text.
"""
import re

IDENT_START = re.compile(r'[A-Za-z_]')
IDENT_CONT = re.compile(r'[A-Za-z0-9_]')


class Tok:
    __slots__ = ('kind', 'text', 'start', 'end')

    def __init__(self, kind, text, start, end):
        self.kind = kind      # 'ws' 'comment' 'str' 'char' 'life' 'ident' 'num' 'punct'
        self.text = text
        self.start = start
        self.end = end

    def __repr__(self):
        return 'Tok(%s,%r,%d)' % (self.kind, self.text, self.start)


def lex(src):
    toks = []
    i = 0
    n = len(src)
    while i < n:
        c = src[i]
        if c in ' \t\r\n':
            j = i
            while j < n and src[j] in ' \t\r\n':
                j += 1
            toks.append(Tok('ws', src[i:j], i, j))
            i = j
        elif src.startswith('//', i):
            j = src.find('\n', i)
            if j < 0:
                j = n
            toks.append(Tok('comment', src[i:j], i, j))
            i = j
        elif src.startswith('/*', i):
            depth = 1
            j = i + 2
            while j < n and depth > 0:
                if src.startswith('/*', j):
                    depth += 1
                    j += 2
                elif src.startswith('*/', j):
                    depth -= 1
                    j += 2
                else:
                    j += 1
            toks.append(Tok('comment', src[i:j], i, j))
            i = j
        elif c == '"' or (c in 'br' and _is_str_start(src, i)):
            j = _scan_string(src, i)
            toks.append(Tok('str', src[i:j], i, j))
            i = j
        elif c == "'" or (c == 'b' and i + 1 < n and src[i + 1] == "'"):
            k = i + 1 if c == 'b' else i
            # char literal or lifetime
            if k + 1 < n and src[k + 1] == '\\':
                j = k + 2
                # escape: skip escaped char then to closing quote
                j += 1
                while j < n and src[j] != "'":
                    j += 1
                j += 1
                toks.append(Tok('char', src[i:j], i, j))
                i = j
            elif k + 2 < n and src[k + 2] == "'":
                j = k + 3
                toks.append(Tok('char', src[i:j], i, j))
                i = j
            else:
                j = k + 1
                while j < n and IDENT_CONT.match(src[j]):
                    j += 1
                toks.append(Tok('life', src[i:j], i, j))
                i = j
        elif IDENT_START.match(c):
            j = i + 1
            while j < n and IDENT_CONT.match(src[j]):
                j += 1
            toks.append(Tok('ident', src[i:j], i, j))
            i = j
        elif c.isdigit():
            j = i + 1
            while j < n and (IDENT_CONT.match(src[j]) or (src[j] == '.' and j + 1 < n and src[j + 1].isdigit())):
                j += 1
            toks.append(Tok('num', src[i:j], i, j))
            i = j
        else:
            # multi-char punctuation we care about
            for p in ('->', '=>', '::', '..=', '..', '&&', '||', '==', '!=', '<=', '>=', '+=', '-=', '*=', '/='):
                if src.startswith(p, i):
                    toks.append(Tok('punct', p, i, i + len(p)))
                    i += len(p)
                    break
            else:
                toks.append(Tok('punct', c, i, i + 1))
                i += 1
    return toks


def _is_str_start(src, i):
    # b"..", r"..", r#".."#, br"..", br#".."#
    m = re.match(r'(b?r#*"|b")', src[i:i + 12])
    if not m:
        return False
    # must not be in the middle of an identifier
    if i > 0 and IDENT_CONT.match(src[i - 1]):
        return False
    return True


def _scan_string(src, i):
    n = len(src)
    m = re.match(r'(b?r(#*)")', src[i:i + 12])
    if m:
        hashes = m.group(2)
        j = i + len(m.group(1))
        end = '"' + hashes
        k = src.find(end, j)
        return (k + len(end)) if k >= 0 else n
    j = i + 1 if src[i] == '"' else i + 2
    while j < n:
        if src[j] == '\\':
            j += 2
        elif src[j] == '"':
            return j + 1
        else:
            j += 1
    return n


OPEN = {'(': ')', '[': ']', '{': '}'}
CLOSE = {')', ']', '}'}
ITEM_KW = {'fn', 'struct', 'enum', 'impl', 'trait', 'mod', 'const', 'static', 'type', 'use', 'macro_rules', 'extern'}


def sig(toks):
    """significant tokens (no whitespace / comments)"""
    return [t for t in toks if t.kind not in ('ws', 'comment')]


class Item:
    def __init__(self, kind, name, start, end, body_start=None, body_end=None, header=None, attrs_end=None):
        self.kind = kind
        self.name = name
        self.start = start          # char offset of first attr / keyword
        self.end = end              # char offset one past the end
        self.body_start = body_start  # offset of '{' (if braced)
        self.body_end = body_end      # offset of matching '}'
        self.header = header          # normalised header text (impl)
        self.attrs_end = attrs_end    # offset where attributes end (visibility / keyword begins)

    def key(self):
        if self.kind == 'impl':
            return self.header
        return '%s %s' % (self.kind, self.name)

    def __repr__(self):
        return 'Item(%s)' % self.key()


def find_items(src, lo=0, hi=None):
    """Items directly inside src[lo:hi] (a file, or the inside of an impl/mod body)."""
    if hi is None:
        hi = len(src)
    toks = [t for t in lex(src[lo:hi])]
    for t in toks:
        t.start += lo
        t.end += lo
    st = sig(toks)
    items = []
    i = 0
    n = len(st)
    while i < n:
        start_i = i
        # attributes
        while i < n and st[i].text == '#':
            # #[...] or #![...]
            j = i + 1
            if j < n and st[j].text == '!':
                j += 1
            if j < n and st[j].text == '[':
                j = _match(st, j) + 1
                i = j
            else:
                break
        attrs_end_i = i
        # visibility
        if i < n and st[i].text == 'pub':
            i += 1
            if i < n and st[i].text == '(':
                i = _match(st, i) + 1
        # qualifiers
        while i < n and st[i].text in ('unsafe', 'async', 'default'):
            i += 1
        if i >= n:
            break
        kw = st[i].text
        if kw == 'const' and i + 1 < n and st[i + 1].text in ('fn', 'unsafe'):
            i += 1
            kw = st[i].text
        if kw not in ITEM_KW:
            # macro invocation like flow_state!(X); or stray token: skip to ';' or matching brace
            j = i
            depth_end = None
            while j < n:
                if st[j].text in OPEN:
                    j = _match(st, j)
                    if st[j].text == '}':
                        depth_end = j
                        break
                elif st[j].text == ';':
                    depth_end = j
                    break
                j += 1
            if depth_end is None:
                break
            items.append(Item('other', st[i].text, st[start_i].start, st[depth_end].end, attrs_end=st[attrs_end_i].start))
            i = depth_end + 1
            continue
        kw_i = i
        name = None
        if kw == 'macro_rules':
            name = st[i + 2].text if i + 2 < n else None
        elif kw != 'impl' and kw != 'use' and kw != 'extern':
            name = st[i + 1].text if i + 1 < n else None
        # find the end
        semi_only = kw in ('const', 'static', 'type', 'use')
        j = i + 1
        body_s = body_e = None
        end_j = None
        while j < n:
            t = st[j].text
            if t == '{' and not semi_only:
                body_s = j
                body_e = _match(st, j)
                end_j = body_e
                break
            if t in OPEN:
                j = _match(st, j) + 1
                continue
            if t == ';':
                end_j = j
                break
            j += 1
        if end_j is None:
            break
        header = None
        if kw == 'impl':
            header = ' '.join(x.text for x in st[kw_i:body_s])
            header = _norm_header(header)
        it = Item(kw, name, st[start_i].start, st[end_j].end,
                  body_start=st[body_s].start if body_s is not None else None,
                  body_end=st[body_e].start if body_e is not None else None,
                  header=header, attrs_end=st[attrs_end_i].start)
        items.append(it)
        i = end_j + 1
    return items


def _norm_header(h):
    h = re.sub(r'\s+', ' ', h)
    h = re.sub(r'\s*([<>,:&()])\s*', r'\1', h)
    h = h.replace(',', ', ')
    h = re.sub(r'\bfor\b', ' for ', h)
    h = re.sub(r'\s+', ' ', h)
    return h.strip()


def norm_header(h):
    return _norm_header(h)


def _match(st, i):
    """index of the token closing the bracket opened at st[i]"""
    depth = 0
    j = i
    n = len(st)
    while j < n:
        t = st[j].text
        if st[j].kind == 'punct':
            if t in OPEN:
                depth += 1
            elif t in CLOSE:
                depth -= 1
                if depth == 0:
                    return j
        j += 1
    raise ValueError('unbalanced bracket at offset %d' % st[i].start)


def match_index(st, i):
    return _match(st, i)
