#!/bin/sh
# run every quick check on the current /repo and validate the evidence files; use before committing evidence/
cd "$(dirname "$0")/.."
rc=0
for i in $(seq -w 1 20); do
  python3 tool/check.py C$i > build/run_all_C$i.log 2>&1; r=$?
  tail -1 build/run_all_C$i.log
  [ $r -ne 0 ] && rc=1
done
python3-vt - <<'PY'
import json, jsonschema, glob
sch = json.load(open('/root/.vp/EVIDENCE.schema.json'))
bad = 0
for f in sorted(glob.glob('evidence/C*.json')):
    ev = json.load(open(f))
    try:
        jsonschema.validate(ev, sch)
        c = ev['coverage']
        assert c['obligations'] == c['discharged'], 'discharged != obligations'
    except Exception as e:
        bad += 1; print('INVALID', f, e)
print('evidence files valid' if not bad else '%d invalid evidence files' % bad)
PY
exit $rc
