#!/bin/sh
export VERIF_EVIDENCE_DIR=/verif/build/experiment_evidence   # never overwrite evidence/ with runs on a patched tree
# run every seeded change under /verif/seeded against the check of the property it breaks; writes seeded/RESULTS.md
cd /verif
echo "| seeded change | property | exit | decided by | failed obligations |" > seeded/RESULTS.md
echo "|---|---|---|---|---|" >> seeded/RESULTS.md
for d in seeded/*/; do
  n=$(basename $d); p=$(python3 -c "import json;print(json.load(open('$d/meta.json'))['property'])")
  git -C /repo apply /verif/$d/patch.diff || { echo "| $n | $p | apply failed | | |" >> seeded/RESULTS.md; continue; }
  python3 tool/check.py $p > build/seed_$n.log 2>&1; rc=$?
  git -C /repo checkout -- .
  obl=$(grep '^FAILED-OBLIGATION' build/seed_$n.log | sed 's/.*obligation=\([^ ]*\).*/\1/' | sort -u | tr '\n' ' ')
  by="-"
  if grep -q '^FAILED-OBLIGATION.*obligation=bounded' build/seed_$n.log; then by="bounded twin"; fi
  if grep '^FAILED-OBLIGATION' build/seed_$n.log | grep -qv 'obligation=bounded'; then if [ "$by" = "bounded twin" ]; then by="Verus + bounded twin"; else by="Verus"; fi; fi
  if grep -q '^INCONCLUSIVE(verifier)' build/seed_$n.log; then by="$by (Verus inconclusive: code restructured)"; fi
  echo "| $n | $p | $rc | $by | $obl |" >> seeded/RESULTS.md
  echo "$n $p exit=$rc $by"
done
git -C /repo status --short | head -3
