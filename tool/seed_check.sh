#!/bin/sh
export VERIF_EVIDENCE_DIR=/verif/build/experiment_evidence   # never overwrite evidence/ with runs on a patched tree
# usage: seed_check.sh <seeded-name> <prop> [more props]   apply the seeded patch to /repo, run the checks, undo
NAME="$1"; shift
git -C /repo apply /verif/seeded/$NAME/patch.diff || { echo "apply failed"; exit 2; }
for P in "$@"; do
  python3 /verif/tool/check.py $P > /tmp/seed_check_${NAME}_${P}.log 2>&1; rc=$?
  echo "== $NAME on $P: exit $rc"; grep -E "^(VIOLATION|FAILED-OBLIGATION|INCONCLUSIVE|PASS|KNOWN)" /tmp/seed_check_${NAME}_${P}.log | cut -c1-260
done
git -C /repo checkout -- .
git -C /repo status --short | head -3
