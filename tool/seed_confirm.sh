#!/bin/sh
# usage: seed_confirm.sh <seed-out-dir> <name>     confirm a seeded change in a scratch worktree and store it under /verif/seeded/<name>
set -u
SRC="$1"; NAME="$2"
WT=$(mktemp -d /tmp/seedconfirm_XXXX)
rmdir "$WT"
git -C /repo worktree add --detach "$WT" HEAD >/dev/null 2>&1 || { echo "worktree failed"; exit 2; }
export CARGO_TARGET_DIR="$WT/target"
cd "$WT"
res_apply=ok; git apply "$SRC/patch.diff" || res_apply=FAILED
suite=$(cargo test --offline 2>&1 | grep -E "^test result" | head -1)
mkdir -p tests; cp "$SRC/demo.rs" tests/seed_demo.rs
with=$(cargo test --offline --test seed_demo 2>&1 | grep -E "^test result" | head -1)
git checkout -- src
without=$(cargo test --offline --test seed_demo 2>&1 | grep -E "^test result" | head -1)
cd /
git -C /repo worktree remove --force "$WT"
echo "apply=$res_apply"; echo "suite_with_change: $suite"; echo "demo_with_change: $with"; echo "demo_without_change: $without"
case "$suite" in *"0 failed"*) s_ok=1;; *) s_ok=0;; esac
case "$with" in *FAILED*) w_ok=1;; *) w_ok=0;; esac
case "$without" in *"ok."*) wo_ok=1;; *) wo_ok=0;; esac
if [ $s_ok = 1 ] && [ $w_ok = 1 ] && [ $wo_ok = 1 ] && [ $res_apply = ok ]; then
  mkdir -p /verif/seeded/$NAME
  cp "$SRC/patch.diff" "$SRC/demo.rs" /verif/seeded/$NAME/
  python3 - "$SRC/meta.json" /verif/seeded/$NAME/meta.json "$suite" "$with" "$without" <<'PY'
import json,sys
m=json.load(open(sys.argv[1]))
m['confirmed_by_main_session']={'suite_with_change':sys.argv[3],'demo_with_change':sys.argv[4],'demo_without_change':sys.argv[5],
  'how':'tool/seed_confirm.sh: scratch git worktree of /repo HEAD, git apply patch.diff, cargo test --offline (suite), demo as tests/seed_demo.rs with and without the change'}
json.dump(m,open(sys.argv[2],'w'),indent=1)
PY
  echo "CONFIRMED -> /verif/seeded/$NAME"
else
  echo "NOT CONFIRMED"
fi
