#!/usr/bin/env python3
"""Extract items verbatim from /repo/src, normalise by the stated rules, weave
contracts from /verif/contracts/*.py and emit one Verus file.

Usage: weave.py --repo /repo --out build/x/hoot_verus.rs [--vacuity]
Exit 0 = woven, exit 2 = lost anchor / missing item (inconclusive, never an alarm).
"""
import sys, os, re, json, hashlib, argparse

HERE = os.path.dirname(os.path.abspath(__file__))
VERIF = os.path.dirname(HERE)
sys.path.insert(0, HERE)
import rsparse
from rsparse import lex, sig, find_items, match_index, norm_header


class LostAnchor(Exception):
    pass


class Weaver:
    def __init__(self, repo, vacuity=False, force_lost=None):
        self.repo = repo
        self.vacuity = vacuity
        self.force_lost = force_lost or {}   # fn path -> reason: keep under contract only (the front end rejected its text)
        self.modules = []          # list of dict(name, src, chunks[])
        self.cur = None
        self.cur_impl = None
        self.report = {'items': [], 'rules': [], 'functions': [], 'not_extracted': [], 'trusted_hoot': []}
        self.src_cache = {}
        self.used = {}             # src -> set of extracted item keys

    # ---------------------------------------------------------------- source access
    def source(self, rel):
        if rel not in self.src_cache:
            p = os.path.join(self.repo, rel)
            if not os.path.exists(p):
                raise LostAnchor('source file missing: %s' % rel)
            text = open(p, encoding='utf-8').read()
            self.src_cache[rel] = (text, find_items(text))
        return self.src_cache[rel]

    def find(self, rel, key, within=None):
        text, items = self.source(rel)
        if within is not None:
            items = find_items(text, within.body_start + 1, within.body_end)
        want = key
        if key.startswith('impl'):
            want = norm_header(key)
        hits = [it for it in items if it.key() == want]
        if not hits:
            raise LostAnchor('item not found in %s: %s%s' % (rel, key, (' (inside %s)' % within.key()) if within else ''))
        if len(hits) > 1:
            raise LostAnchor('item ambiguous in %s: %s' % (rel, key))
        return text, hits[0]

    # ---------------------------------------------------------------- DSL
    def MODULE(self, name, src, uses=''):
        self.cur = {'name': name, 'src': src, 'chunks': []}
        self.modules.append(self.cur)
        self.cur_impl = None
        if uses:
            self.cur['chunks'].append(uses.strip('\n') + '\n')

    def _auto_consts(self):
        """constants added to an extracted source file since the contracts were written are extracted verbatim too
        (they carry no obligations); functions are NOT auto-extracted"""
        for m in self.modules:
            rel = m['src']
            if rel.endswith('lib.rs'):
                continue
            try:
                text, items = self.source(rel)
            except LostAnchor:
                continue
            done = set(m.get('item_keys', []))
            for it in items:
                if it.kind == 'const' and it.key() not in done and it.name not in ('CHARS_PER_ROW', 'HEX'):
                    body = self._normalise(text[it.start:it.end], 'const')
                    m['chunks'].append('// @ITEM %s (auto-extracted new constant, %s)\n%s\n' % (it.key(), rel, body))
                    self._record_item(rel, it, body)
                    m.setdefault('item_keys', []).append(it.key())

    def RAW(self, text):
        self.cur['chunks'].append(text.strip('\n') + '\n')

    def PROOF(self, name, props, text):
        """a lemma / spec block written in /verif; failures inside are attributed to `name`"""
        q = '%s::%s' % (self.cur['name'], name)
        self.report['functions'].append({'path': q, 'props': props, 'kind': 'lemma', 'origin': 'verif'})
        self.cur['chunks'].append('// @FN %s\n%s\n// @ENDFN\n' % (q, text.strip('\n')))

    def ITEM(self, key, derive_add=(), derive_drop=(), rewrites=(), attrs=(), fields_pub=True):
        rel = self.cur['src']
        text, it = self.find(rel, key)
        body = text[it.start:it.end]
        self._record_item(rel, it, body)
        body = self._apply_rewrites(body, rewrites, key)
        body = self._normalise(body, it.kind, trait_impl=(it.kind == 'impl' and ' for ' in (it.header or '')), fields_pub=fields_pub)
        body = self._derive(body, derive_add, derive_drop, key)
        self.cur.setdefault('item_keys', []).append(it.key())
        for a in attrs:
            body = '#[%s]\n' % a + body
        self.cur['chunks'].append('// @ITEM %s  (%s:%d)\n%s\n' % (key, rel, text.count('\n', 0, it.start) + 1, body))

    def IMPL(self, key, header=None, raw=''):
        rel = self.cur['src']
        text, it = self.find(rel, key)
        self.cur_impl = it
        hdr = header if header else text[it.attrs_end:it.body_start].strip()
        self.used.setdefault((rel, it.key()), set())
        self.cur['chunks'].append('%s {\n%s' % (hdr, (raw.strip('\n') + '\n') if raw else ''))

    def END(self):
        rel = self.cur['src']
        it = self.cur_impl
        text, _ = self.source(rel)
        subs = find_items(text, it.body_start + 1, it.body_end)
        used = self.used.get((rel, it.key()), set())
        for s in subs:
            if s.key() not in used:
                self.report['not_extracted'].append('%s :: %s :: %s' % (rel, it.key(), s.key()))
        self.cur['chunks'].append('}\n')
        self.cur_impl = None

    def FN(self, name, props=(), ret=None, requires=(), ensures=(), loops=None, rewrites=(),
           before=(), after=(), head='', mutself=False, attrs=(), trusted=False, vis=None, decreases=None,
           ensures_raw='', no_unwind=False, lost=None):
        rel = self.cur['src']
        within = self.cur_impl
        try:
            text, it = self.find(rel, 'fn ' + name, within=within)
        except LostAnchor as e:
            if trusted:
                raise
            # the function no longer exists under this name (removed / renamed / merged): nothing to verify for it in this
            # run; properties that list it become inconclusive, callers that still mention it are handled by the fallback
            q0 = '%s::%s%s' % (self.cur['name'], (self._impl_short(within) + '::') if within else '', name)
            self.report.setdefault('lost', []).append({'fn': q0, 'props': list(props), 'reason': str(e)})
            self.report['functions'].append({'path': q0, 'props': list(props), 'kind': 'lost', 'origin': rel})
            return
        if within is not None:
            self.used[(rel, within.key())].add(it.key())
        raw = text[it.start:it.end]
        self._record_item(rel, it, raw, parent=within)
        trait_impl = within is not None and ' for ' in (within.header or '')
        q = '%s::%s%s' % (self.cur['name'], (self._impl_short(within) + '::') if within else '', name)
        lost = None
        try:
            if q in self.force_lost and not trusted:
                raise LostAnchor(self.force_lost[q])
            if lost and not trusted:
                raise LostAnchor('%s: %s' % (q, lost))
            body = self._apply_rewrites(raw, rewrites, q)
            body = self._normalise(body, 'fn', trait_impl=trait_impl)
            if vis is not None:
                body = re.sub(r'^pub\s+', '', body) if vis == '' else body
            # token-level weaving
            if trusted:
                # N8: a trusted function keeps its signature and gets an assumed contract; the body is outside the verifier
                body = self._drop_body(body, q)
                self._rule('N8', q, 'fn body', 'external_body, assumed contract')
            body = self._weave_fn(body, q, ret, requires, ensures, loops or {}, before, after, head, mutself, decreases, ensures_raw, no_unwind)
        except LostAnchor as e:
            if trusted:
                raise
            # The annotations written for this function no longer apply to its text (it was restructured).  The function is
            # NOT verified in this run: it is kept under its contract only, so that its callers and every property whose
            # chain does not contain it can still be decided; properties that list it become inconclusive (check.py).
            lost = str(e)
            # signature-level normalisations (N6 `&dyn Fn` -> `&impl Fn`, N8 path fixes in where-clauses) must still be applied,
            # otherwise the callers of the function no longer type-check against it; body-level rewrites are skipped
            sig_src = self._drop_body(raw, q)
            for rw in rewrites:
                try:
                    sig_src = self._apply_rewrites(sig_src, [(rw[0], rw[1], rw[2], '*')], q)
                except LostAnchor:
                    pass
            body = self._normalise(sig_src, 'fn', trait_impl=trait_impl)
            if vis is not None:
                body = re.sub(r'^pub\s+', '', body) if vis == '' else body
            body = self._weave_fn(body, q, ret, requires, ensures, {}, (), (), '', False, decreases, ensures_raw, no_unwind)
            self.report.setdefault('lost', []).append({'fn': q, 'props': list(props), 'reason': lost})
        for a in attrs:
            body = '#[%s]\n' % a + body
        if trusted or lost:
            body = '#[verifier::external_body]\n' + body
        if trusted:
            self.report['trusted_hoot'].append(q)
        self.report['functions'].append({'path': q, 'props': list(props), 'kind': 'trusted' if trusted else ('lost' if lost else 'exec'),
                                         'origin': '%s:%d' % (rel, text.count('\n', 0, it.start) + 1)})
        self.cur['chunks'].append('// @FN %s\n%s\n// @ENDFN\n' % (q, body))

    # ---------------------------------------------------------------- helpers
    def _impl_short(self, it):
        h = it.header
        h = re.sub(r'^impl(<[^>]*>)?', '', h).strip()
        return h.replace(' ', '')

    def _record_item(self, rel, it, body, parent=None):
        text, _ = self.source(rel)
        l0 = text.count('\n', 0, it.start) + 1
        l1 = text.count('\n', 0, it.end) + 1
        self.report['items'].append({'file': rel, 'item': ((parent.key() + ' :: ') if parent else '') + it.key(),
                                     'lines': [l0, l1], 'sha256': hashlib.sha256(body.encode()).hexdigest()})

    def _rule(self, rule, where, before, after):
        self.report['rules'].append({'rule': rule, 'where': where, 'before': before, 'after': after})

    def _apply_rewrites(self, body, rewrites, where):
        for rw in rewrites:
            rule, frm, to = rw[0], rw[1], rw[2]
            count = rw[3] if len(rw) > 3 else 1
            # whitespace-insensitive match: any run of white space in `frm` matches any run in the source
            if rule.endswith('~'):
                # operand-generic form: IDENT in `frm` stands for any identifier / field path, re-used as \1, \2 in `to`
                rule = rule[:-1]
                parts = [re.escape(x).replace('IDENT', r'([A-Za-z_][A-Za-z0-9_\.]*)') for x in frm.split()]
                rx = re.compile(r'\s+'.join(parts))
                found = len(rx.findall(body))
                if count != '*' and found != count:
                    raise LostAnchor('%s: rewrite %s expects %d occurrence(s) of %r, found %d' % (where, rule, count, frm, found))
                body = rx.sub(to, body)
                self._rule(rule, where, frm, to)
                continue
            parts = [re.escape(x) for x in frm.split()]
            rx = re.compile(r'\s+'.join(parts))
            found = len(rx.findall(body))
            if count == '*':
                # macro normalisations (N4): rewrite every occurrence that is there; a changed call simply
                # stays as the source has it and is then judged by the verifier, not by the weaver
                pass
            elif found != count:
                raise LostAnchor('%s: rewrite %s expects %d occurrence(s) of %r, found %d' % (where, rule, count, frm, found))
            body = rx.sub(lambda m: to, body)
            self._rule(rule, where, frm, to)
        return body

    def _derive(self, body, add, drop, where):
        if not add and not drop:
            return body
        m = re.search(r'#\[derive\(([^)]*)\)\]', body)
        if not m:
            if add:
                raise LostAnchor('%s: no derive list to amend' % where)
            return body
        names = [x.strip() for x in m.group(1).split(',') if x.strip()]
        new = [x for x in names if x not in drop] + [x for x in add if x not in names]
        rep = '#[derive(%s)]' % ', '.join(new)
        self._rule('N10', where, m.group(0), rep)
        return body[:m.start()] + rep + body[m.end():]

    def _normalise(self, body, kind, trait_impl=False, fields_pub=True):
        toks = lex(body)
        st = [t for t in toks if t.kind not in ('ws', 'comment')]
        edits = []   # (start, end, replacement)
        # N1: pub(crate) / pub(super) -> pub
        for i, t in enumerate(st):
            if t.text == 'pub' and i + 1 < len(st) and st[i + 1].text == '(' and i + 2 < len(st) and st[i + 2].text in ('crate', 'super', 'in', 'self'):
                j = match_index(st, i + 1)
                edits.append((t.start, st[j].end, 'pub'))
        # N3: drop debug!(..); trace!(..);
        for i, t in enumerate(st):
            if t.kind == 'ident' and t.text in ('debug', 'trace') and i + 2 < len(st) and st[i + 1].text == '!' and st[i + 2].text == '(':
                if i > 0 and st[i - 1].text in ('::', '.'):
                    continue
                j = match_index(st, i + 2)
                end = st[j].end
                if j + 1 < len(st) and st[j + 1].text == ';':
                    end = st[j + 1].end
                edits.append((t.start, end, '/* N3: log statement dropped */'))
                self._rule('N3', kind, body[t.start:end], '')
        body2 = _apply_edits(body, edits)
        # N1: add pub to the item itself and to struct fields / impl fns
        body2 = self._pubify(body2, kind, trait_impl, fields_pub)
        return body2

    def _pubify(self, body, kind, trait_impl, fields_pub):
        toks = lex(body)
        st = [t for t in toks if t.kind not in ('ws', 'comment')]
        edits = []
        # position of the item keyword (after attributes)
        i = 0
        while i < len(st) and st[i].text == '#':
            j = i + 1
            if st[j].text == '!':
                j += 1
            i = match_index(st, j) + 1
        if kind in ('fn', 'struct', 'enum', 'const', 'static', 'type', 'trait') and not trait_impl:
            if i < len(st) and st[i].text != 'pub':
                edits.append((st[i].start, st[i].start, 'pub '))
        if kind == 'impl' and not trait_impl:
            # every fn / const directly inside
            k = next(x for x in range(i, len(st)) if st[x].text == '{')
            depth = 0
            x = k
            while x < len(st):
                t = st[x]
                if t.kind == 'punct' and t.text in '([{':
                    depth += 1
                elif t.kind == 'punct' and t.text in ')]}':
                    depth -= 1
                elif depth == 1 and t.text in ('fn', 'const') and st[x - 1].text not in ('pub', ')', 'const', 'unsafe'):
                    edits.append((t.start, t.start, 'pub '))
                x += 1
        if kind == 'struct' and fields_pub:
            # find the field list: first '{' or '(' after the name
            k = None
            for x in range(i, len(st)):
                if st[x].text in ('{', '('):
                    k = x
                    break
                if st[x].text == ';':
                    break
            if k is not None:
                e = match_index(st, k)
                depth = 0
                expect_field = True
                x = k + 1
                while x < e:
                    t = st[x]
                    if expect_field:
                        # skip attributes
                        while st[x].text == '#':
                            x = match_index(st, x + 1) + 1
                        t = st[x]
                        if x < e and t.text != 'pub':
                            edits.append((t.start, t.start, 'pub '))
                        expect_field = False
                        continue
                    if t.kind == 'punct' and t.text in '([{<':
                        depth += 1
                    elif t.kind == 'punct' and t.text in ')]}>':
                        depth -= 1
                    elif t.text == '->':
                        pass
                    elif t.text == ',' and depth == 0:
                        expect_field = True
                    x += 1
        return _apply_edits(body, edits)

    def _drop_body(self, body, q):
        toks = lex(body)
        st = [t for t in toks if t.kind not in ('ws', 'comment')]
        fi = next(i for i, t in enumerate(st) if t.text == 'fn')
        i = fi
        while i < len(st):
            if st[i].text in ('(', '['):
                i = match_index(st, i) + 1
                continue
            if st[i].text == '{':
                break
            i += 1
        bc = match_index(st, i)
        return body[:st[i].start] + '{ unimplemented!() }' + body[st[bc].end:]

    def _weave_fn(self, body, q, ret, requires, ensures, loops, before, after, head, mutself, decreases, ensures_raw, no_unwind):
        toks = lex(body)
        st = [t for t in toks if t.kind not in ('ws', 'comment')]
        # locate 'fn'
        fi = next(i for i, t in enumerate(st) if t.text == 'fn')
        # body open: first '{' at paren depth 0 after fn
        i = fi
        bo = None
        while i < len(st):
            if st[i].text in ('(', '['):
                i = match_index(st, i) + 1
                continue
            if st[i].text == '{':
                bo = i
                break
            i += 1
        if bo is None:
            raise LostAnchor('%s: no body' % q)
        bc = match_index(st, bo)
        edits = []
        # return value naming
        if ret:
            i = fi
            arrow = None
            where_i = None
            while i < bo:
                if st[i].text in ('(', '['):
                    i = match_index(st, i) + 1
                    continue
                if st[i].text == '->' and arrow is None:
                    arrow = i
                if st[i].text == 'where':
                    where_i = i
                i += 1
            if arrow is None:
                raise LostAnchor('%s: ret named but function has no return type' % q)
            t0 = st[arrow + 1].start
            t1 = st[(where_i if where_i else bo) - 1].end
            edits.append((t0, t1, '(%s: %s)' % (ret, body[t0:t1])))
        # N2: mut self
        if mutself:
            hit = None
            for i in range(fi, bo):
                if st[i].text == 'mut' and st[i + 1].text == 'self':
                    hit = i
            if hit is None:
                raise LostAnchor('%s: N2 expects `mut self`' % q)
            edits.append((st[hit].start, st[hit + 1].start, ''))
            for i in range(bo + 1, bc):
                if st[i].kind == 'ident' and st[i].text == 'self':
                    edits.append((st[i].start, st[i].end, 'this'))
            self._rule('N2', q, 'mut self', 'self + let mut this = self; body[self:=this]')
        # contracts before the body
        spec = ''
        if requires:
            spec += '    requires\n' + ''.join(_clause(n, e) for n, e in requires)
        ens = list(ensures)
        if ens or ensures_raw:
            spec += '    ensures\n' + ''.join(_clause(n, e) for n, e in ens) + ensures_raw
        if decreases:
            spec += '    decreases %s\n' % decreases
        if no_unwind:
            spec += '    no_unwind\n'
        hd = ''
        if self.vacuity:
            # reachability of the function body under its preconditions and all assumed axioms: this assertion MUST fail
            hd += '\n/*@OBL:vacuity.%s*/ proof { assert(false); }\n' % q
        if mutself:
            hd += ' let mut this = self;'
        if head:
            hd += '\n/*@HINT<*/' + head.strip('\n') + '/*@HINT>*/\n'
        edits.append((st[bo].start, st[bo].end, ('\n' + spec if spec else '') + '{' + hd))
        # loops
        loop_toks = [i for i in range(bo + 1, bc) if st[i].kind == 'ident' and st[i].text in ('loop', 'while', 'for')
                     and not (st[i].text == 'for' and st[i + 1].text == '<')]
        for ordinal, spec_l in loops.items():
            if ordinal < 1 or ordinal > len(loop_toks):
                raise LostAnchor('%s: loop %d not found (function has %d loops)' % (q, ordinal, len(loop_toks)))
            li = loop_toks[ordinal - 1]
            kw = spec_l.get('kw')
            if kw and st[li].text != kw:
                raise LostAnchor('%s: loop %d is `%s`, contract expects `%s`' % (q, ordinal, st[li].text, kw))
            txt = ''
            if spec_l.get('invariant_except_break'):
                txt += '        invariant_except_break\n' + ''.join(_clause(n, e, 12) for n, e in spec_l['invariant_except_break'])
            if spec_l.get('invariant'):
                txt += '        invariant\n' + ''.join(_clause(n, e, 12) for n, e in spec_l['invariant'])
            if spec_l.get('ensures'):
                txt += '        ensures\n' + ''.join(_clause(n, e, 12) for n, e in spec_l['ensures'])
            if spec_l.get('decreases'):
                txt += '        decreases %s\n' % spec_l['decreases']
            if st[li].text == 'loop':
                pos = st[li].end
            else:
                j = li + 1
                while j < bc:
                    if st[j].text in ('(', '['):
                        j = match_index(st, j) + 1
                        continue
                    if st[j].text == '{':
                        break
                    j += 1
                pos = st[j].start
            edits.append((pos, pos, '\n' + txt + '        '))
            # the loop body's braces
            j = li + 1
            while j < bc:
                if st[j].text in ('(', '['):
                    j = match_index(st, j) + 1
                    continue
                if st[j].text == '{':
                    break
                j += 1
            jc = match_index(st, j)
            if spec_l.get('body_head'):
                edits.append((st[j].end, st[j].end, '\n/*@HINT<*/' + spec_l['body_head'].strip('\n') + '/*@HINT>*/\n'))
            if spec_l.get('body_tail'):
                edits.append((st[jc].start, st[jc].start, '\n' + spec_l['body_tail'].strip('\n') + '\n'))
            if spec_l.get('before'):
                edits.append((st[li].start, st[li].start, '/*@HINT<*/' + spec_l['before'].strip('\n') + '/*@HINT>*/\n'))
            if spec_l.get('after'):
                edits.append((st[jc].end, st[jc].end, '\n/*@HINT<*/' + spec_l['after'].strip('\n') + '/*@HINT>*/\n'))
        # anchored insertions
        for anchor, ins in before:
            p = _unique(body, anchor, q, st[bo].start)
            edits.append((p, p, '/*@HINT<*/' + ins.strip('\n') + '/*@HINT>*/\n'))
        for anchor, ins in after:
            p = _unique(body, anchor, q, st[bo].start) + len(anchor)
            edits.append((p, p, '\n/*@HINT<*/' + ins.strip('\n') + '/*@HINT>*/\n'))
        return _apply_edits(body, edits)

    # ---------------------------------------------------------------- output
    def emit(self, preamble_files):
        """one file; every module has its own verus! block (derive(Structural) inside a module nested
        in a verus! block crashes this Verus version)"""
        out = []
        out.append('// GENERATED by /verif/tool/weave.py from %s -- do not edit\n' % self.repo)
        out.append('#![allow(unused_imports, unused_variables, dead_code, unused_mut, unused_assignments, non_snake_case, unreachable_code, unreachable_patterns, unused_parens, unused_braces)]\n')
        out.append('use vstd::prelude::*;\n')
        root = [pf for pf in preamble_files if ':' not in os.path.basename(pf)]
        mods = [pf for pf in preamble_files if ':' in os.path.basename(pf)]
        out.append('verus! {\n')
        for pf in root:
            out.append('// @PREAMBLE %s\n' % os.path.basename(pf))
            out.append(open(pf, encoding='utf-8').read())
            out.append('\n')
        out.append('} // verus!\n')
        for pf in mods:
            d, b = os.path.split(pf)
            name, fname = b.split(':', 1)
            out.append('// @PREAMBLE %s\npub mod %s {\nuse vstd::prelude::*;\nverus! {\n' % (fname, name))
            out.append(open(os.path.join(d, fname), encoding='utf-8').read())
            out.append('\n} // verus!\n} // mod %s\n' % name)
        # module tree
        tree = {}
        for m in self.modules:
            parts = m['name'].split('::')
            node = tree
            for p in parts:
                node = node.setdefault(p, {})
            node.setdefault('__chunks__', []).extend(m['chunks'])

        def emit_node(name, node):
            out.append('pub mod %s {\n' % name)
            out.append('use vstd::prelude::*;\n')
            if node.get('__chunks__'):
                out.append('verus! {\n')
                for ch in node['__chunks__']:
                    out.append(ch)
                out.append('} // verus!\n')
            for k, v in node.items():
                if k != '__chunks__':
                    emit_node(k, v)
            out.append('} // mod %s\n' % name)
        for k, v in tree.items():
            emit_node(k, v)
        out.append('fn main() {}\n')
        return ''.join(out)


def _clause(name, expr, indent=8):
    pad = ' ' * indent
    e = expr.strip('\n')
    return '%s/*@OBL:%s*/ %s,\n' % (pad, name, e)


def _unique(body, anchor, q, lo):
    c = body.count(anchor)
    if c != 1:
        raise LostAnchor('%s: anchor %r occurs %d times (need exactly 1)' % (q, anchor, c))
    return body.index(anchor)


def _apply_edits(body, edits):
    if not edits:
        return body
    # stable: sort by start; insertions at same point keep given order
    idx = sorted(range(len(edits)), key=lambda k: (edits[k][0], k))
    out = []
    pos = 0
    for k in idx:
        s, e, r = edits[k]
        if s < pos:
            raise LostAnchor('overlapping edits at %d' % s)
        out.append(body[pos:s])
        out.append(r)
        pos = e
    out.append(body[pos:])
    return ''.join(out)


def index_output(text):
    """scan the woven file: obligation markers -> line ranges, function ranges"""
    obls = []
    fns = []
    hints = []     # [first line, last line] of ghost text inserted by the contract files (proof hints)
    hopen = None
    cur = None
    lines = text.split('\n')
    for ln, line in enumerate(lines, 1):
        for m in re.finditer(r'/\*@HINT([<>])\*/', line):
            if m.group(1) == '<':
                hopen = ln
            elif hopen is not None:
                hints.append([hopen, ln])
                hopen = None
        m = re.match(r'\s*// @FN (\S+)', line)
        if m:
            cur = {'path': m.group(1), 'start': ln, 'end': None}
            fns.append(cur)
            continue
        if line.strip() == '// @ENDFN' and cur:
            cur['end'] = ln
            cur = None
            continue
        for m in re.finditer(r'/\*@OBL:([^*]+)\*/', line):
            obls.append({'name': m.group(1), 'line': ln, 'fn': cur['path'] if cur else None, 'text': line.split('*/', 1)[1].strip()})
    # an obligation's range extends to the line before the next marker / spec keyword
    for k, o in enumerate(obls):
        end = o['line']
        j = o['line']  # index of next line (0-based = line number)
        while j < len(lines):
            nxt = lines[j]
            if '/*@OBL:' in nxt or re.match(r'\s*(requires|ensures|invariant|invariant_except_break|decreases|no_unwind)\b', nxt) or nxt.strip().startswith('{') or '// @ENDFN' in nxt:
                break
            end = j + 1
            j += 1
        o['end'] = end
        if end > o['line']:
            o['text'] = ' '.join(x.strip() for x in lines[o['line'] - 1:end])
            o['text'] = o['text'].split('*/', 1)[1].strip()
    index_output.hints = hints
    return obls, fns


def scan_trusted(text):
    """mechanical scan for every assumption construct in the woven file"""
    found = []
    lines = text.split('\n')
    pat = re.compile(r'(assume\s*\(|admit\s*\(|verifier::external_body|assume_specification|verifier::external\b|verifier::external_type_specification|verifier::external_trait_specification|axiom_\w+|uninterp\s+spec\s+fn\s+\w+)')
    for ln, line in enumerate(lines, 1):
        s = line.strip()
        if s.startswith('//'):
            continue
        for m in pat.finditer(line):
            kind = m.group(1)
            ctx = s
            if kind.startswith('verifier::external'):
                # name the item on one of the next lines
                for k in range(ln, min(ln + 6, len(lines))):
                    mm = re.search(r'\b(fn|struct|enum|trait|type|impl)\s+([A-Za-z0-9_:<>\', ]+)', lines[k])
                    if mm and not lines[k].strip().startswith('#'):
                        ctx = '%s %s' % (mm.group(1), mm.group(2).strip())
                        break
            found.append({'kind': kind.strip(' ('), 'line': ln, 'what': ctx[:160]})
    return found


def build(repo, out_path, vacuity=False, contracts_dir=None, preamble_dir=None, force_lost=None):
    contracts_dir = contracts_dir or os.path.join(VERIF, 'contracts')
    preamble_dir = preamble_dir or os.path.join(VERIF, 'preamble')
    w = Weaver(repo, vacuity=vacuity, force_lost=force_lost)
    order = [l.strip() for l in open(os.path.join(contracts_dir, 'ORDER')).read().split() if l.strip() and not l.startswith('#')]
    env = {'MODULE': w.MODULE, 'RAW': w.RAW, 'ITEM': w.ITEM, 'IMPL': w.IMPL, 'END': w.END, 'FN': w.FN, 'PROOF': w.PROOF,
           'VACUITY': vacuity, 'REPO': repo, 'LostAnchor': LostAnchor}
    for name in order:
        path = os.path.join(contracts_dir, name)
        code = compile(open(path, encoding='utf-8').read(), path, 'exec')
        exec(code, dict(env))
    w._auto_consts()
    pre = [os.path.join(preamble_dir, l.strip()) for l in open(os.path.join(preamble_dir, 'ORDER')).read().split() if l.strip()]
    text = w.emit(pre)
    os.makedirs(os.path.dirname(os.path.abspath(out_path)), exist_ok=True)
    with open(out_path, 'w', encoding='utf-8') as f:
        f.write(text)
    obls, fns = index_output(text)
    rep = w.report
    rep['obligations'] = obls
    rep['fn_ranges'] = fns
    rep['hint_ranges'] = index_output.hints
    rep['trusted_scan'] = scan_trusted(text)
    rep['woven_sha256'] = hashlib.sha256(text.encode()).hexdigest()
    with open(out_path + '.report.json', 'w') as f:
        json.dump(rep, f, indent=1)
    return rep


def main():
    ap = argparse.ArgumentParser()
    ap.add_argument('--repo', default='/repo')
    ap.add_argument('--out', default=os.path.join(VERIF, 'build', 'hoot_verus.rs'))
    ap.add_argument('--vacuity', action='store_true')
    a = ap.parse_args()
    try:
        rep = build(a.repo, a.out, vacuity=a.vacuity)
    except LostAnchor as e:
        print('INCONCLUSIVE: weave failed: %s' % e)
        sys.exit(2)
    print('woven %s: %d items, %d functions, %d named obligations, %d rule applications' % (
        a.out, len(rep['items']), len(rep['functions']), len(rep['obligations']), len(rep['rules'])))


if __name__ == '__main__':
    main()
